import OSProofs.FL3Lemmas

/-!
# FL3 — Part A: the prediction closed forms for EVERY scalar type; Part B: the two-team chain

## Part A
`Props/C12.lean` proves over ℝ (with `List.sum`) that `predict_win`, the `predict_rank` probabilities and
`predict_draw` are the documented per-team closed forms.  Here the same closed forms are proved as
*equalities of the model's own terms for every `[Scalar α]`*: only list structure is used
(`chunk (n-1) ∘ orderedPairs` = "for each team, its opponents"), no arithmetic law whatsoever — so the
equalities hold bit for bit at `Float`.  Sums are `sumL` (the left fold from `0`, Python's `sum` / `+=`
loop), in the order stated; opponents of team `i` are `othersOf (aggs teams) i` from
`OSModel/Compute.lean` (all other indices, in input order).

Two remarks on "bit for bit":
* the equalities are between terms of the *model*; that the model at `Float` is the library is the tested
  correspondence of the project, and there is one known limit to it that concerns exactly these sums: CPython ≥ 3.12
  evaluates the builtin `sum(...)` of floats (used by `predict_win`, `predict_rank`, `predict_draw`) with
  compensated (Neumaier) summation, whereas `sumL` is the plain left fold;
* the library rejects fewer than two teams (`_check_teams`); the model does not, and for exactly one team it
  returns `[]` — which is why `GEN_C12_win_many_partial`, `GEN_C12_rank_probs`, `GEN_C12_length` exclude
  `teams.length = 1`.

## Part B
see the second half of the file.
-/

namespace OS
open Scalar
variable {α : Type} [Scalar α]

local notation "𝟘" => (Scalar.ofNat 0)
local notation "𝟙" => (Scalar.ofNat 1)

/-! ## Part A -/

/-- **`predict_win`, any number of teams but 1 and 2** (0, or 3 and more): entry `i` (input order) is the
LEFT-FOLD sum, over the opponents of team `i` in input order, of `Φ((θi − θb) / √(n β² + s²i + s²b))`,
divided by the computed `n(n−1) / 2`.

The statement as given in the task ("for `teams.length ≠ 2`") is false for exactly one team: the code
returns `[]` (there are no pairs, `zip_longest` of zero iterators yields nothing) while the right-hand side
has one entry — see `GEN_C12_win_one` and the `example` after it.
Intended statement: the same with `(hn : teams.length ≠ 2)` only. -/
theorem GEN_C12_win_many_partial (β : α) (teams : List (List (Rating α)))
    (hn : teams.length ≠ 2) (h1 : teams.length ≠ 1) :
    predictWin β teams = (aggs teams).zipIdx.map (fun a =>
      sumL ((othersOf (aggs teams) a.2).map (fun b =>
        Phi ((a.1.mu - b.mu) / pairDenom teams.length β a.1 b)))
        / (ofNat (teams.length * (teams.length - 1)) / ofNat 2)) := by
  have hl : (aggs teams).length = teams.length := fl3_length_aggs teams
  unfold predictWin
  split
  · rename_i a b h
    rw [h] at hl
    exact absurd hl.symm hn
  · dsimp only
    exact fl3_regroup' (aggs teams) teams.length hl h1
      (fun a b => Phi ((a.mu - b.mu) / pairDenom teams.length β a b)) _

/-- three or more teams: the case the library documents -/
theorem GEN_C12_win_many (β : α) (teams : List (List (Rating α))) (hn : 3 ≤ teams.length) :
    predictWin β teams = (aggs teams).zipIdx.map (fun a =>
      sumL ((othersOf (aggs teams) a.2).map (fun b =>
        Phi ((a.1.mu - b.mu) / pairDenom teams.length β a.1 b)))
        / (ofNat (teams.length * (teams.length - 1)) / ofNat 2)) :=
  GEN_C12_win_many_partial β teams (by omega) (by omega)

/-- **one team**: `predict_win` returns the empty list -/
theorem GEN_C12_win_one (β : α) (t : List (Rating α)) : predictWin β [t] = [] := by
  simp [predictWin, aggs, fl3_orderedPairs_singleton, chunk_nil]

/-- the counter-example to the intended statement: for one team the two sides have different lengths -/
example (β : α) (t : List (Rating α)) :
    (predictWin β [t]).length ≠ ((aggs [t]).zipIdx.map (fun a =>
      sumL ((othersOf (aggs [t]) a.2).map (fun b =>
        Phi ((a.1.mu - b.mu) / pairDenom 1 β a.1 b))) / (ofNat (1 * (1 - 1)) / ofNat 2))).length := by
  rw [GEN_C12_win_one]
  simp [aggs]

/-- **`predict_win`, exactly two teams** `[a, b]`: `[r, 1 − r]` with
`r = Φ((θa − θb) / √(N β² + s²a + s²b))`, `N = playerCount [a, b]` the number of players; the second
entry is the computed subtraction `1 − r`, not a second evaluation of Φ. -/
theorem GEN_C12_win_two (β : α) (a b : List (Rating α)) :
    predictWin β [a, b] =
      [Phi (((teamAgg a 0).mu - (teamAgg b 0).mu)
          / pairDenom (playerCount [a, b]) β (teamAgg a 0) (teamAgg b 0)),
       𝟙 - Phi (((teamAgg a 0).mu - (teamAgg b 0).mu)
          / pairDenom (playerCount [a, b]) β (teamAgg a 0) (teamAgg b 0))] := rfl

/-- the same for a list of teams known to have two entries -/
theorem GEN_C12_win_two' (β : α) (teams : List (List (Rating α))) (hn : teams.length = 2) :
    ∃ a b, teams = [a, b] ∧ predictWin β teams =
      [Phi (((teamAgg a 0).mu - (teamAgg b 0).mu)
          / pairDenom (playerCount teams) β (teamAgg a 0) (teamAgg b 0)),
       𝟙 - Phi (((teamAgg a 0).mu - (teamAgg b 0).mu)
          / pairDenom (playerCount teams) β (teamAgg a 0) (teamAgg b 0))] := by
  match teams, hn with
  | [a, b], _ => exact ⟨a, b, rfl, rfl⟩

/-- **`predict_rank` probabilities, any number of teams but 1** (also 2: there is no special two-team
path): entry `i` is `sabs` of the LEFT-FOLD sum over the opponents of team `i`, in input order, of
`Φ((θi − θb − m) / √(n β² + s²i + s²b))`, divided by the computed `n(n−1) / 2`; `m = drawMargin β N`.
(For one team the code returns `[]`: `GEN_C12_rank_probs_one`.) -/
theorem GEN_C12_rank_probs (β : α) (teams : List (List (Rating α))) (h1 : teams.length ≠ 1) :
    predictRankProbs β teams = (aggs teams).zipIdx.map (fun a =>
      sabs (sumL ((othersOf (aggs teams) a.2).map (fun b =>
        Phi ((a.1.mu - b.mu - drawMargin β (playerCount teams)) / pairDenom teams.length β a.1 b)))
        / (ofNat (teams.length * (teams.length - 1)) / ofNat 2))) := by
  have hl : (aggs teams).length = teams.length := fl3_length_aggs teams
  unfold predictRankProbs
  dsimp only
  rw [fl3_regroup' (aggs teams) teams.length hl h1
    (fun a b => Phi ((a.mu - b.mu - drawMargin β (playerCount teams)) / pairDenom teams.length β a b)),
    List.map_map]
  rfl

theorem GEN_C12_rank_probs_one (β : α) (t : List (Rating α)) : predictRankProbs β [t] = [] := by
  simp [predictRankProbs, aggs, fl3_orderedPairs_singleton, chunk_nil]

/-- **`predict_draw`, any number of teams**: `sabs` of the LEFT-FOLD sum, over all ordered pairs of teams in
the order of `itertools.permutations(teams, 2)` (`orderedPairs`), of
`Φ((m − θa + θb)/s_ab) − Φ((θa − θb − m)/s_ab)`, divided by `n(n−1)` if `n > 2` and by `1` otherwise
(the division by `1` is performed).  `s_ab = √(n β² + s²a + s²b)`, `m = drawMargin β N`. -/
theorem GEN_C12_draw (β : α) (teams : List (List (Rating α))) :
    predictDraw β teams =
      sabs (sumL ((orderedPairs (aggs teams)).map (fun ab =>
        Phi ((drawMargin β (playerCount teams) - ab.1.mu + ab.2.mu)
            / pairDenom teams.length β ab.1 ab.2)
          - Phi ((ab.1.mu - ab.2.mu - drawMargin β (playerCount teams))
            / pairDenom teams.length β ab.1 ab.2))))
      / (if teams.length > 2 then ofNat (teams.length * (teams.length - 1)) else 𝟙) := rfl

/-- **`predict_draw`, regrouped by team as far as that is possible without reassociating**: the sum over
the ordered pairs is the nested loop "for each team `a` in input order, for each opponent `b` of `a` in input
order: `acc += term a b`" with ONE accumulator running through all teams.

The per-team form of `C12_draw` — the sum over the teams of the per-team sums,
`sumL (teams.map (fun a => sumL (opponents.map (term a))))` — is *not* equal to this in general: it starts
every inner sum from a fresh `0` and adds the inner totals afterwards, i.e. it reassociates
`((0 + x₁) + x₂) + x₃ + …` into `(0 + ((0 + x₁) + x₂)) + ((0 + x₃) + …)`, which needs associativity of `+`
(false at `Float`) and `0 + x = x`.  See `fl3_toy_regroup_fails` for a scalar type in which the two differ. -/
theorem GEN_C12_draw_nested (β : α) (teams : List (List (Rating α))) :
    predictDraw β teams =
      sabs ((aggs teams).zipIdx.foldl (fun acc a =>
        ((othersOf (aggs teams) a.2).map (fun b =>
          Phi ((drawMargin β (playerCount teams) - a.1.mu + b.mu) / pairDenom teams.length β a.1 b)
            - Phi ((a.1.mu - b.mu - drawMargin β (playerCount teams))
              / pairDenom teams.length β a.1 b))).foldl (· + ·) acc) 𝟘)
      / (if teams.length > 2 then ofNat (teams.length * (teams.length - 1)) else 𝟙) := by
  rw [GEN_C12_draw, fl3_sumL_orderedPairs (aggs teams) (fun a b =>
    Phi ((drawMargin β (playerCount teams) - a.mu + b.mu) / pairDenom teams.length β a b)
      - Phi ((a.mu - b.mu - drawMargin β (playerCount teams)) / pairDenom teams.length β a b))]

/-- **lengths**: `predict_win`, the `predict_rank` probabilities and `predict_rank` return one entry per
team for every number of teams but 1 (where all three return `[]`) -/
theorem GEN_C12_length (β : α) (teams : List (List (Rating α))) (h1 : teams.length ≠ 1) :
    (predictWin β teams).length = teams.length
    ∧ (predictRankProbs β teams).length = teams.length
    ∧ (predictRank β teams).length = teams.length := by
  have hl : (aggs teams).length = teams.length := fl3_length_aggs teams
  have hr : (predictRankProbs β teams).length = teams.length := by
    rw [GEN_C12_rank_probs β teams h1, List.length_map, List.length_zipIdx, hl]
  refine ⟨?_, hr, ?_⟩
  · by_cases h2 : teams.length = 2
    · obtain ⟨a, b, rfl, h⟩ := GEN_C12_win_two' β teams h2
      rw [h]; rfl
    · rw [GEN_C12_win_many_partial β teams h2 h1, List.length_map, List.length_zipIdx, hl]
  · simp only [predictRank, rankData, List.length_zip, List.length_map, hr, Nat.min_self]

/-- one team: all three are empty -/
theorem GEN_C12_length_one (β : α) (t : List (Rating α)) :
    predictWin β [t] = [] ∧ predictRankProbs β [t] = [] ∧ predictRank β [t] = [] := by
  refine ⟨GEN_C12_win_one β t, GEN_C12_rank_probs_one β t, ?_⟩
  simp [predictRank, GEN_C12_rank_probs_one, rankData]

/-! ## Part B — the two-team direction of learning (C05, second clause) in every monotone arithmetic

A two-team game `[t0, t1]`; the same two teams (same `mu`, `sig2`, players) with three rank vectors:
team 0 ahead (`rw0 < rw1`), tied (`rd = rd`), behind (`rl1 < rl0`).  `FL3_omega0 K L P t0 t1 r0 r1` is team 0's
`ω` as `omegaDelta K L P [t0 with rank r0, t1 with rank r1]` computes it (`FL_C05_two_team_omegaDelta`),
`FL3_omega1` team 1's.  `FL3Chain lo dr wi` is `lo ≤ dr ∧ dr ≤ wi ∧ lo ≤ 0 ∧ 0 ≤ wi`.

**Laws beyond `MonoArith`.**  The chain compares products with a factor of unknown or negative sign (the
draw `ω`), which `MonoArith.mul_le_mul'` does not cover; what is needed, model by model, and not derivable
from `MonoArith` (see `OSProofs/FL3Lemmas.lean`):

* every model, for the per-player `share * ω`, and Bradley–Terry / Thurstone–Mosteller for `s2c * (…)`:
  `MulLeftMonoNonpos` — `0 ≤ a → x ≤ y → y ≤ 0 → a * x ≤ a * y`;
* Plackett–Luce, for `(Σ…) * (σ²/c)`: `MulRightMonoNonpos` (the mirror image: there is no commutativity)
  and `HalfLeOne` — `0 ≤ a → a / 2 ≤ a / 1` (the tie has `A_q = 2`);
* Thurstone–Mosteller, for the loss term `(−s2c) * v(−x, t)`: `NegMulLe` — `(−a) * b ≤ a * (−b)`.

`0 ≤ 1/2 ≤ 1` *is* derivable (`fl3_half_nonneg`, `fl3_half_le_one`: `div_nonneg'`, `div_le_one'`, `ofNat_le'`).
All four laws hold in ℝ and in every "exact, then monotone rounding" arithmetic: `Props/FL3Inst.lean`.
-/

/-- `FL3_omega0`, `FL3_omega1` are what `omegaDelta` returns for the two-team game -/
theorem FL_C05_two_team_omegaDelta (K : Kind) (L : Leaves α) (P : Params α) (t0 t1 : TeamAgg α)
    (r0 r1 : Nat) :
    (omegaDelta K L P [fl3_wr t0 r0, fl3_wr t1 r1]).map (·.1)
      = [FL3_omega0 K L P t0 t1 r0 r1, FL3_omega1 K L P t0 t1 r0 r1] :=
  fl3_omegaDelta_two K L P t0 t1 r0 r1

section
variable (M : MonoArith α)
include M

/-! ### the computed `ω` -/

/-- **Bradley–Terry (full and partial pairing), team 0**: `ω_loss ≤ ω_draw ≤ ω_win`, `ω_loss ≤ 0 ≤ ω_win`,
as computed: `ω = 0 + σ²₀/c · (s − p)` with `s = 0, 1/2, 1`.  Hypotheses: team 0's variance `≥ 0`, the
computed `c_01 > 0`. -/
theorem FL_C05_two_team_omega_BT (hL : MulLeftMonoNonpos α) (K : Kind) (hK : K = .BTF ∨ K = .BTP)
    (L : Leaves α) (P : Params α) (t0 t1 : TeamAgg α) (hs : 𝟘 ≤ t0.sig2)
    (hc : 𝟘 < fl3_ciq P.beta t0 t1) {rw0 rw1 rd rl0 rl1 : Nat} (hw : rw0 < rw1) (hl : rl1 < rl0) :
    FL3Chain (FL3_omega0 K L P t0 t1 rl0 rl1) (FL3_omega0 K L P t0 t1 rd rd)
      (FL3_omega0 K L P t0 t1 rw0 rw1) :=
  M.fl3_chain0_BT hL K hK L P t0 t1 hs hc hw hl

/-- **Bradley–Terry, team 1** (it wins when `rw1 < rw0`) -/
theorem FL_C05_two_team_omega_BT_team1 (hL : MulLeftMonoNonpos α) (K : Kind)
    (hK : K = .BTF ∨ K = .BTP) (L : Leaves α) (P : Params α) (t0 t1 : TeamAgg α) (hs : 𝟘 ≤ t1.sig2)
    (hc : 𝟘 < fl3_ciq P.beta t1 t0) {rw0 rw1 rd rl0 rl1 : Nat} (hw : rw1 < rw0) (hl : rl0 < rl1) :
    FL3Chain (FL3_omega1 K L P t0 t1 rl0 rl1) (FL3_omega1 K L P t0 t1 rd rd)
      (FL3_omega1 K L P t0 t1 rw0 rw1) :=
  M.fl3_chain1_BT hL K hK L P t0 t1 hs hc hw hl

/-- **Plackett–Luce, team 0.**  With `e_i = exp(μ_i/c)`, `S = (0 + e₀) + e₁`, `p = e₀/S`, `w = σ²₀/c`:
`ω_win = (0 + (1 − p)/1)·w`, `ω_draw = ((0 + (1 − p)/2) + −(p/2))·w`,
`ω_loss = ((0 + (1 − e₀/(0 + e₀))/1) + −(p/1))·w`, and `ω_loss ≤ ω_draw ≤ ω_win`, `ω_loss ≤ 0 ≤ ω_win`.
Hypotheses: team 0's variance `≥ 0`, the computed `c > 0` and `exp(μ₀/c) > 0`. -/
theorem FL_C05_two_team_omega_PL (hR : MulRightMonoNonpos α) (hH : HalfLeOne α)
    (L : Leaves α) (P : Params α) (t0 t1 : TeamAgg α) (hs : 𝟘 ≤ t0.sig2)
    (hc : 𝟘 < plC P.beta [t0, t1]) (he : 𝟘 < exp (t0.mu / plC P.beta [t0, t1]))
    {rw0 rw1 rd rl0 rl1 : Nat} (hw : rw0 < rw1) (hl : rl1 < rl0) :
    FL3Chain (FL3_omega0 .PL L P t0 t1 rl0 rl1) (FL3_omega0 .PL L P t0 t1 rd rd)
      (FL3_omega0 .PL L P t0 t1 rw0 rw1) :=
  M.fl3_chain0_PL hR hH L P t0 t1 hs hc he hw hl

/-- **Plackett–Luce, team 1** (its own term comes last in the sums) -/
theorem FL_C05_two_team_omega_PL_team1 (hR : MulRightMonoNonpos α) (hH : HalfLeOne α)
    (L : Leaves α) (P : Params α) (t0 t1 : TeamAgg α) (hs : 𝟘 ≤ t1.sig2)
    (hc : 𝟘 < plC P.beta [t0, t1]) (he : 𝟘 < exp (t1.mu / plC P.beta [t0, t1]))
    {rw0 rw1 rd rl0 rl1 : Nat} (hw : rw1 < rw0) (hl : rl0 < rl1) :
    FL3Chain (FL3_omega1 .PL L P t0 t1 rl0 rl1) (FL3_omega1 .PL L P t0 t1 rd rd)
      (FL3_omega1 .PL L P t0 t1 rw0 rw1) :=
  M.fl3_chain1_PL hR hH L P t0 t1 hs hc he hw hl

/-- **Thurstone–Mosteller (full and partial pairing), team 0**, under `LeavesChainAt` at the two arguments the
pair is evaluated at: `ω_win = 0 + s2c·v(x,t)`, `ω_draw = 0 + s2c·vt(x,t)`, `ω_loss = 0 + (−s2c)·v(−x,t)`. -/
theorem FL_C05_two_team_omega_TM (hL : MulLeftMonoNonpos α) (hN : NegMulLe α) (K : Kind)
    (hK : K = .TMF ∨ K = .TMP) (L : Leaves α) (P : Params α) (t0 t1 : TeamAgg α)
    (hs : 𝟘 ≤ t0.sig2) (hc : 𝟘 < fl3_tmC (fl3_cmul K) P.beta t0 t1)
    (hLv : LeavesChainAt L (fl3_tmD (fl3_cmul K) P.beta t0 t1)
      (fl3_tmT (fl3_cmul K) P.beta P.kappa t0 t1))
    {rw0 rw1 rd rl0 rl1 : Nat} (hw : rw0 < rw1) (hl : rl1 < rl0) :
    FL3Chain (FL3_omega0 K L P t0 t1 rl0 rl1) (FL3_omega0 K L P t0 t1 rd rd)
      (FL3_omega0 K L P t0 t1 rw0 rw1) :=
  M.fl3_chain0_TM hL hN K hK L P t0 t1 hs hc hLv hw hl

/-- **Thurstone–Mosteller, team 1** -/
theorem FL_C05_two_team_omega_TM_team1 (hL : MulLeftMonoNonpos α) (hN : NegMulLe α) (K : Kind)
    (hK : K = .TMF ∨ K = .TMP) (L : Leaves α) (P : Params α) (t0 t1 : TeamAgg α)
    (hs : 𝟘 ≤ t1.sig2) (hc : 𝟘 < fl3_tmC (fl3_cmul K) P.beta t1 t0)
    (hLv : LeavesChainAt L (fl3_tmD (fl3_cmul K) P.beta t1 t0)
      (fl3_tmT (fl3_cmul K) P.beta P.kappa t1 t0))
    {rw0 rw1 rd rl0 rl1 : Nat} (hw : rw1 < rw0) (hl : rl0 < rl1) :
    FL3Chain (FL3_omega1 K L P t0 t1 rl0 rl1) (FL3_omega1 K L P t0 t1 rd rd)
      (FL3_omega1 K L P t0 t1 rw0 rw1) :=
  M.fl3_chain1_TM hL hN K hK L P t0 t1 hs hc hLv hw hl

end

section
variable (M : MonoArith α)
include M

/-- **All five models, team 0**: the `ω` chain from the four extra laws, the positive computed divisors
(`DivisorsPos` of `OSProofs/FL1Lemmas.lean`; it does not mention ranks) and, for Thurstone–Mosteller, the
leaf facts. -/
theorem FL_C05_two_team_omega (hC : ChainLaws α) (K : Kind) (L : Leaves α) (P : Params α)
    (t0 t1 : TeamAgg α) (hs : 𝟘 ≤ t0.sig2) (hd : DivisorsPos K P [t0, t1])
    (hLv : K = .TMF ∨ K = .TMP → LeavesChainAt L (fl3_tmD (fl3_cmul K) P.beta t0 t1)
      (fl3_tmT (fl3_cmul K) P.beta P.kappa t0 t1))
    {rw0 rw1 rd rl0 rl1 : Nat} (hw : rw0 < rw1) (hl : rl1 < rl0) :
    FL3Chain (FL3_omega0 K L P t0 t1 rl0 rl1) (FL3_omega0 K L P t0 t1 rd rd)
      (FL3_omega0 K L P t0 t1 rw0 rw1) := by
  have m0 : t0 ∈ [t0, t1] := by simp
  have m1 : t1 ∈ [t0, t1] := by simp
  cases K with
  | PL =>
    obtain ⟨h1, _, h3⟩ := hd
    exact FL_C05_two_team_omega_PL M hC.mulR hC.half L P t0 t1 hs h1 (h3 t0 m0) hw hl
  | BTF =>
    exact FL_C05_two_team_omega_BT M hC.mulL _ (Or.inl rfl) L P t0 t1 hs (hd t0 m0 t1 m1) hw hl
  | BTP =>
    exact FL_C05_two_team_omega_BT M hC.mulL _ (Or.inr rfl) L P t0 t1 hs (hd t0 m0 t1 m1) hw hl
  | TMF =>
    exact FL_C05_two_team_omega_TM M hC.mulL hC.negMul _ (Or.inl rfl) L P t0 t1 hs
      (hd t0 m0 t1 m1) (hLv (Or.inl rfl)) hw hl
  | TMP =>
    exact FL_C05_two_team_omega_TM M hC.mulL hC.negMul _ (Or.inr rfl) L P t0 t1 hs
      (hd t0 m0 t1 m1) (hLv (Or.inr rfl)) hw hl

/-- **All five models, team 1.** -/
theorem FL_C05_two_team_omega_team1 (hC : ChainLaws α) (K : Kind) (L : Leaves α) (P : Params α)
    (t0 t1 : TeamAgg α) (hs : 𝟘 ≤ t1.sig2) (hd : DivisorsPos K P [t0, t1])
    (hLv : K = .TMF ∨ K = .TMP → LeavesChainAt L (fl3_tmD (fl3_cmul K) P.beta t1 t0)
      (fl3_tmT (fl3_cmul K) P.beta P.kappa t1 t0))
    {rw0 rw1 rd rl0 rl1 : Nat} (hw : rw1 < rw0) (hl : rl0 < rl1) :
    FL3Chain (FL3_omega1 K L P t0 t1 rl0 rl1) (FL3_omega1 K L P t0 t1 rd rd)
      (FL3_omega1 K L P t0 t1 rw0 rw1) := by
  have m0 : t0 ∈ [t0, t1] := by simp
  have m1 : t1 ∈ [t0, t1] := by simp
  cases K with
  | PL =>
    obtain ⟨h1, _, h3⟩ := hd
    exact FL_C05_two_team_omega_PL_team1 M hC.mulR hC.half L P t0 t1 hs h1 (h3 t1 m1) hw hl
  | BTF =>
    exact FL_C05_two_team_omega_BT_team1 M hC.mulL _ (Or.inl rfl) L P t0 t1 hs
      (hd t1 m1 t0 m0) hw hl
  | BTP =>
    exact FL_C05_two_team_omega_BT_team1 M hC.mulL _ (Or.inr rfl) L P t0 t1 hs
      (hd t1 m1 t0 m0) hw hl
  | TMF =>
    exact FL_C05_two_team_omega_TM_team1 M hC.mulL hC.negMul _ (Or.inl rfl) L P t0 t1 hs
      (hd t1 m1 t0 m0) (hLv (Or.inl rfl)) hw hl
  | TMP =>
    exact FL_C05_two_team_omega_TM_team1 M hC.mulL hC.negMul _ (Or.inr rfl) L P t0 t1 hs
      (hd t1 m1 t0 m0) (hLv (Or.inr rfl)) hw hl

end

/-! ### lifted through `applyTeam` / `compute`

`FL3ComputeChain K L P T0 T1 i T rl0 rl1 rd rw0 rw1` says: slot `i` of
`compute K L P [T0, T1] [rl0, rl1]`, of `compute … [rd, rd]` and of `compute … [rw0, rw1]` exist (`Tl`, `Td`, `Tw`), and
for every member `p` at position `j` of the prior team `T` there are `pl`, `pd`, `pw` at position `j` of
`Tl`, `Td`, `Tw` with the same id and `pl.mu ≤ pd.mu ≤ pw.mu`, `pl.mu ≤ p.mu ≤ pw.mu` — exactly, as computed
(`mu' = mu + σ²/Σσ² · ω`). -/

section
variable (M : MonoArith α)
include M

/-- **`mu + share·ω` is monotone in `ω`** (`share = σ·σ/Σσ² ≥ 0`): the chain of the `ω` becomes a chain of
every member's posterior mu. -/
theorem FL_applyTeam_mu_chain (hL : MulLeftMonoNonpos α) {kappa : α} (t : TeamAgg α)
    (hs : 𝟘 < t.sig2) {ol od ow : α} (h : FL3Chain ol od ow) (dl dd dw : α) :
    FL3TeamChain t.players (applyTeam kappa t ol dl) (applyTeam kappa t od dd)
      (applyTeam kappa t ow dw) := by
  simp only [fl1_applyTeam_eq_map]
  exact M.fl3_team_chain hL hs h dl dd dw t.players

/-- **C05 two-team chain, Bradley–Terry (full and partial pairing), team 0.**  Only hypothesis on the game:
the computed variance of team 0 is `> 0` (that of team 1 is `≥ 0` by the laws, and `c_01 > 0` follows).
Every member of team 0: `mu'_loss ≤ mu'_draw ≤ mu'_win` and `mu'_loss ≤ mu ≤ mu'_win`. -/
theorem FL_C05_two_team_chain_BT (hL : MulLeftMonoNonpos α) (K : Kind) (hK : K = .BTF ∨ K = .BTP)
    (L : Leaves α) (P : Params α) (T0 T1 : List (Rating α))
    (hv : 𝟘 < sumL (T0.map (fun p => p.sigma * p.sigma)))
    {rw0 rw1 rd rl0 rl1 : Nat} (hw : rw0 < rw1) (hl : rl1 < rl0) :
    FL3ComputeChain K L P T0 T1 0 T0 rl0 rl1 rd rw0 rw1 :=
  M.fl3_lift0 hL K L P T0 T1 hv
    (FL_C05_two_team_omega_BT M hL K hK L P _ _ (M.fl1_le_of_lt hv)
      (M.fl1_ciq_pos P.beta (teamAgg T0 0) (teamAgg T1 0) hv (M.fl1_teamAgg_sig2_nonneg T1 0)) hw hl)

/-- **Bradley–Terry, team 1** (it wins when `rw1 < rw0`) -/
theorem FL_C05_two_team_chain_BT_team1 (hL : MulLeftMonoNonpos α) (K : Kind)
    (hK : K = .BTF ∨ K = .BTP) (L : Leaves α) (P : Params α) (T0 T1 : List (Rating α))
    (hv : 𝟘 < sumL (T1.map (fun p => p.sigma * p.sigma)))
    {rw0 rw1 rd rl0 rl1 : Nat} (hw : rw1 < rw0) (hl : rl0 < rl1) :
    FL3ComputeChain K L P T0 T1 1 T1 rl0 rl1 rd rw0 rw1 :=
  M.fl3_lift1 hL K L P T0 T1 hv
    (FL_C05_two_team_omega_BT_team1 M hL K hK L P _ _ (M.fl1_le_of_lt hv)
      (M.fl1_ciq_pos P.beta (teamAgg T1 0) (teamAgg T0 0) hv (M.fl1_teamAgg_sig2_nonneg T0 0)) hw hl)

/-- **C05 two-team chain, Plackett–Luce, team 0.**  Hypotheses on the game: team 0's computed variance `> 0`
and `exp(μ₀/c) > 0` (no underflow of the exponential); `c > 0` follows. -/
theorem FL_C05_two_team_chain_PL (hL : MulLeftMonoNonpos α) (hR : MulRightMonoNonpos α)
    (hH : HalfLeOne α) (L : Leaves α) (P : Params α) (T0 T1 : List (Rating α))
    (hv : 𝟘 < sumL (T0.map (fun p => p.sigma * p.sigma)))
    (he : 𝟘 < exp ((teamAgg T0 0).mu / plC P.beta [teamAgg T0 0, teamAgg T1 0]))
    {rw0 rw1 rd rl0 rl1 : Nat} (hw : rw0 < rw1) (hl : rl1 < rl0) :
    FL3ComputeChain .PL L P T0 T1 0 T0 rl0 rl1 rd rw0 rw1 :=
  M.fl3_lift0 hL .PL L P T0 T1 hv
    (FL_C05_two_team_omega_PL M hR hH L P _ _ (M.fl1_le_of_lt hv)
      (M.fl3_plC_pos_two0 P.beta (teamAgg T0 0) (teamAgg T1 0) hv (M.fl1_teamAgg_sig2_nonneg T1 0))
      he hw hl)

/-- **Plackett–Luce, team 1** -/
theorem FL_C05_two_team_chain_PL_team1 (hL : MulLeftMonoNonpos α) (hR : MulRightMonoNonpos α)
    (hH : HalfLeOne α) (L : Leaves α) (P : Params α) (T0 T1 : List (Rating α))
    (hv : 𝟘 < sumL (T1.map (fun p => p.sigma * p.sigma)))
    (he : 𝟘 < exp ((teamAgg T1 0).mu / plC P.beta [teamAgg T0 0, teamAgg T1 0]))
    {rw0 rw1 rd rl0 rl1 : Nat} (hw : rw1 < rw0) (hl : rl0 < rl1) :
    FL3ComputeChain .PL L P T0 T1 1 T1 rl0 rl1 rd rw0 rw1 :=
  M.fl3_lift1 hL .PL L P T0 T1 hv
    (FL_C05_two_team_omega_PL_team1 M hR hH L P _ _ (M.fl1_le_of_lt hv)
      (M.fl3_plC_pos_two1 P.beta (teamAgg T0 0) (teamAgg T1 0) (M.fl1_teamAgg_sig2_nonneg T0 0) hv)
      he hw hl)

/-- **C05 two-team chain, Thurstone–Mosteller, team 0**, under the leaf facts `LeavesChainAt` and a positive
computed divisor `cmul · c_01`. -/
theorem FL_C05_two_team_chain_TM (hL : MulLeftMonoNonpos α) (hN : NegMulLe α) (K : Kind)
    (hK : K = .TMF ∨ K = .TMP) (L : Leaves α) (P : Params α) (T0 T1 : List (Rating α))
    (hv : 𝟘 < sumL (T0.map (fun p => p.sigma * p.sigma)))
    (hc : 𝟘 < fl3_tmC (fl3_cmul K) P.beta (teamAgg T0 0) (teamAgg T1 0))
    (hLv : LeavesChainAt L (fl3_tmD (fl3_cmul K) P.beta (teamAgg T0 0) (teamAgg T1 0))
      (fl3_tmT (fl3_cmul K) P.beta P.kappa (teamAgg T0 0) (teamAgg T1 0)))
    {rw0 rw1 rd rl0 rl1 : Nat} (hw : rw0 < rw1) (hl : rl1 < rl0) :
    FL3ComputeChain K L P T0 T1 0 T0 rl0 rl1 rd rw0 rw1 :=
  M.fl3_lift0 hL K L P T0 T1 hv
    (FL_C05_two_team_omega_TM M hL hN K hK L P _ _ (M.fl1_le_of_lt hv) hc hLv hw hl)

/-- **Thurstone–Mosteller, team 1** -/
theorem FL_C05_two_team_chain_TM_team1 (hL : MulLeftMonoNonpos α) (hN : NegMulLe α) (K : Kind)
    (hK : K = .TMF ∨ K = .TMP) (L : Leaves α) (P : Params α) (T0 T1 : List (Rating α))
    (hv : 𝟘 < sumL (T1.map (fun p => p.sigma * p.sigma)))
    (hc : 𝟘 < fl3_tmC (fl3_cmul K) P.beta (teamAgg T1 0) (teamAgg T0 0))
    (hLv : LeavesChainAt L (fl3_tmD (fl3_cmul K) P.beta (teamAgg T1 0) (teamAgg T0 0))
      (fl3_tmT (fl3_cmul K) P.beta P.kappa (teamAgg T1 0) (teamAgg T0 0)))
    {rw0 rw1 rd rl0 rl1 : Nat} (hw : rw1 < rw0) (hl : rl0 < rl1) :
    FL3ComputeChain K L P T0 T1 1 T1 rl0 rl1 rd rw0 rw1 :=
  M.fl3_lift1 hL K L P T0 T1 hv
    (FL_C05_two_team_omega_TM_team1 M hL hN K hK L P _ _ (M.fl1_le_of_lt hv) hc hLv hw hl)

end

section
variable (M : MonoArith α)
include M

/-- **`FL_C05_two_team_chain (K)`: the two-team chain for all five models, team 0.**  In every monotone
arithmetic that also satisfies the four `ChainLaws`: for a two-team game whose team 0 has a positive computed
variance and whose remaining computed divisors are positive (`DivisorsPosRest`: nothing for Bradley–Terry;
`0 < c·c`, `0 < exp(μ_t/c)` for Plackett–Luce; `0 < cmul·c_iq` for Thurstone–Mosteller, where the leaf facts
`LeavesChainAt` are needed too), every member of team 0 has
`mu'_loss ≤ mu'_draw ≤ mu'_win` and `mu'_loss ≤ mu ≤ mu'_win`, exactly as computed. -/
theorem FL_C05_two_team_chain (hC : ChainLaws α) (K : Kind) (L : Leaves α) (P : Params α)
    (T0 T1 : List (Rating α)) (hv : 𝟘 < sumL (T0.map (fun p => p.sigma * p.sigma)))
    (hd : DivisorsPosRest K P [teamAgg T0 0, teamAgg T1 0])
    (hLv : K = .TMF ∨ K = .TMP →
      LeavesChainAt L (fl3_tmD (fl3_cmul K) P.beta (teamAgg T0 0) (teamAgg T1 0))
        (fl3_tmT (fl3_cmul K) P.beta P.kappa (teamAgg T0 0) (teamAgg T1 0)))
    {rw0 rw1 rd rl0 rl1 : Nat} (hw : rw0 < rw1) (hl : rl1 < rl0) :
    FL3ComputeChain K L P T0 T1 0 T0 rl0 rl1 rd rw0 rw1 := by
  have m0 : teamAgg T0 0 ∈ [teamAgg T0 0, teamAgg T1 0] := by simp
  have m1 : teamAgg T1 0 ∈ [teamAgg T0 0, teamAgg T1 0] := by simp
  cases K with
  | PL =>
    exact FL_C05_two_team_chain_PL M hC.mulL hC.mulR hC.half L P T0 T1 hv (hd.2 _ m0) hw hl
  | BTF => exact FL_C05_two_team_chain_BT M hC.mulL _ (Or.inl rfl) L P T0 T1 hv hw hl
  | BTP => exact FL_C05_two_team_chain_BT M hC.mulL _ (Or.inr rfl) L P T0 T1 hv hw hl
  | TMF =>
    exact FL_C05_two_team_chain_TM M hC.mulL hC.negMul _ (Or.inl rfl) L P T0 T1 hv
      (hd _ m0 _ m1) (hLv (Or.inl rfl)) hw hl
  | TMP =>
    exact FL_C05_two_team_chain_TM M hC.mulL hC.negMul _ (Or.inr rfl) L P T0 T1 hv
      (hd _ m0 _ m1) (hLv (Or.inr rfl)) hw hl

/-- **the two-team chain for all five models, team 1** (it wins when `rw1 < rw0`) -/
theorem FL_C05_two_team_chain_team1 (hC : ChainLaws α) (K : Kind) (L : Leaves α) (P : Params α)
    (T0 T1 : List (Rating α)) (hv : 𝟘 < sumL (T1.map (fun p => p.sigma * p.sigma)))
    (hd : DivisorsPosRest K P [teamAgg T0 0, teamAgg T1 0])
    (hLv : K = .TMF ∨ K = .TMP →
      LeavesChainAt L (fl3_tmD (fl3_cmul K) P.beta (teamAgg T1 0) (teamAgg T0 0))
        (fl3_tmT (fl3_cmul K) P.beta P.kappa (teamAgg T1 0) (teamAgg T0 0)))
    {rw0 rw1 rd rl0 rl1 : Nat} (hw : rw1 < rw0) (hl : rl0 < rl1) :
    FL3ComputeChain K L P T0 T1 1 T1 rl0 rl1 rd rw0 rw1 := by
  have m0 : teamAgg T0 0 ∈ [teamAgg T0 0, teamAgg T1 0] := by simp
  have m1 : teamAgg T1 0 ∈ [teamAgg T0 0, teamAgg T1 0] := by simp
  cases K with
  | PL =>
    exact FL_C05_two_team_chain_PL_team1 M hC.mulL hC.mulR hC.half L P T0 T1 hv (hd.2 _ m1) hw hl
  | BTF => exact FL_C05_two_team_chain_BT_team1 M hC.mulL _ (Or.inl rfl) L P T0 T1 hv hw hl
  | BTP => exact FL_C05_two_team_chain_BT_team1 M hC.mulL _ (Or.inr rfl) L P T0 T1 hv hw hl
  | TMF =>
    exact FL_C05_two_team_chain_TM_team1 M hC.mulL hC.negMul _ (Or.inl rfl) L P T0 T1 hv
      (hd _ m1 _ m0) (hLv (Or.inl rfl)) hw hl
  | TMP =>
    exact FL_C05_two_team_chain_TM_team1 M hC.mulL hC.negMul _ (Or.inr rfl) L P T0 T1 hv
      (hd _ m1 _ m0) (hLv (Or.inr rfl)) hw hl

/-! ### the hypotheses are satisfiable -/

/-- `0 ≤ 1/2 ≤ 1` as computed: derived from `div_nonneg'`, `div_le_one'`, `ofNat_le'`, `ofNat_lt'` -/
example : (𝟘 : α) ≤ 𝟙 / ofNat 2 ∧ (𝟙 : α) / ofNat 2 ≤ 𝟙 := ⟨M.fl3_half_nonneg, M.fl3_half_le_one⟩

/-- `LeavesChainAt` has a model in every monotone arithmetic (the zero leaves) -/
example (x t : α) :
    LeavesChainAt (⟨fun _ _ => 𝟘, fun _ _ => 𝟘, fun _ _ => 𝟘, fun _ _ => 𝟘⟩ : Leaves α) x t :=
  ⟨M.le_refl' _, M.le_refl' _, M.le_refl' _, M.neg_nonpos' (M.le_refl' _)⟩

/-- `HalfLeOne` follows from "division by 1 is exact" -/
example (h : ∀ a : α, a / ofNat 1 = a) : HalfLeOne α := M.fl3_halfLeOne_of_div_one h

/-- the dense ranks `rate` produces for a two-team game are an instance: win `[0, 1]`, tie `[0, 0]`,
loss `[1, 0]` -/
example (hL : MulLeftMonoNonpos α) (L : Leaves α) (P : Params α) (T0 T1 : List (Rating α))
    (hv : 𝟘 < sumL (T0.map (fun p => p.sigma * p.sigma))) :
    FL3ComputeChain .BTF L P T0 T1 0 T0 1 0 0 0 1 :=
  FL_C05_two_team_chain_BT M hL .BTF (Or.inl rfl) L P T0 T1 hv (by decide) (by decide)

end

end OS
