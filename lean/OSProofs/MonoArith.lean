import OSModel
/-!
# `MonoArith`: the laws of an arithmetic with monotone rounding

The theorems of `OSProofs` are about the model at `α := ℝ`; the library computes in IEEE doubles.
For a number of the listed properties the claim is an *inequality that has to hold exactly* in the
numbers the library returns (a posterior sigma never above the inflated prior, a winner's mu never
below the prior, a probability never outside [0, 1]).  Such inequalities do not need the field axioms:
they follow from the *order* behaviour of the operations, and that behaviour survives rounding, because
rounding to nearest is monotone, sign-symmetric and fixes 0, 1 and the small integers.

`MonoArith α` lists order laws that hold

* for `ℝ` (`MonoArith.real`, proved),
* for *every* arithmetic "compute exactly in ℝ, then apply a monotone, sign-symmetric, idempotent rounding
  that fixes the natural numbers" (`Rounding`, `RN r`, `MonoArith.rn`, proved) — round-to-nearest-even,
  round-toward-zero, … on any float format are such roundings, and
* therefore for IEEE doubles as long as no operation produces a NaN or overflows (the domain of C08):
  `Float` itself is opaque to Lean's kernel, so that last step is part of the trusted base, not a theorem.

No associativity, commutativity, distributivity or cancellation law is listed, and **no strict positivity
of products** (`0 < a → 0 < b → 0 < a * b` fails in doubles by underflow): theorems that divide take the
positivity of the computed divisor as a hypothesis.  The transcendental functions are only assumed to have
the right sign and range (`exp ≥ 0`, `0 ≤ Φ ≤ 1`, `φ ≥ 0`): libm is not correctly rounded and not monotone.
`sqrt` is correctly rounded in IEEE-754, hence monotone.
-/
namespace OS
open Scalar

structure MonoArith (α : Type) [Scalar α] : Prop where
  -- order: total preorder (no NaN), `<` is the strict part
  le_refl' : ∀ a : α, a ≤ a
  le_trans' : ∀ {a b c : α}, a ≤ b → b ≤ c → a ≤ c
  le_total' : ∀ a b : α, a ≤ b ∨ b ≤ a
  lt_iff_not_le' : ∀ {a b : α}, a < b ↔ ¬ b ≤ a
  -- addition
  add_le_add' : ∀ {a b c d : α}, a ≤ b → c ≤ d → a + c ≤ b + d
  add_nonneg' : ∀ {a b : α}, ofNat 0 ≤ a → ofNat 0 ≤ b → ofNat 0 ≤ a + b
  add_nonpos' : ∀ {a b : α}, a ≤ ofNat 0 → b ≤ ofNat 0 → a + b ≤ ofNat 0
  le_add_right' : ∀ {a b : α}, ofNat 0 ≤ b → a ≤ a + b
  le_add_left' : ∀ {a b : α}, ofNat 0 ≤ a → b ≤ a + b
  add_le_right' : ∀ {a b : α}, b ≤ ofNat 0 → a + b ≤ a
  add_le_left' : ∀ {a b : α}, a ≤ ofNat 0 → a + b ≤ b
  -- subtraction
  sub_le_sub' : ∀ {a b c d : α}, a ≤ b → d ≤ c → a - c ≤ b - d
  sub_nonneg' : ∀ {a b : α}, b ≤ a → ofNat 0 ≤ a - b
  sub_nonpos' : ∀ {a b : α}, a ≤ b → a - b ≤ ofNat 0
  sub_le_self' : ∀ {a b : α}, ofNat 0 ≤ b → a - b ≤ a
  le_sub_self' : ∀ {a b : α}, b ≤ ofNat 0 → a ≤ a - b
  -- negation
  neg_le_neg' : ∀ {a b : α}, a ≤ b → -b ≤ -a
  neg_nonneg' : ∀ {a : α}, a ≤ ofNat 0 → ofNat 0 ≤ -a
  neg_nonpos' : ∀ {a : α}, ofNat 0 ≤ a → -a ≤ ofNat 0
  -- rounding is sign-symmetric (an equality for exact-then-round; in IEEE up to the sign of zero)
  neg_add_le' : ∀ (a b : α), -(a + b) ≤ -a + -b
  neg_sub_le' : ∀ (a b : α), -(a - b) ≤ b - a
  -- multiplication
  mul_nonneg' : ∀ {a b : α}, ofNat 0 ≤ a → ofNat 0 ≤ b → ofNat 0 ≤ a * b
  mul_nonpos_right' : ∀ {a b : α}, ofNat 0 ≤ a → b ≤ ofNat 0 → a * b ≤ ofNat 0
  mul_nonpos_left' : ∀ {a b : α}, a ≤ ofNat 0 → ofNat 0 ≤ b → a * b ≤ ofNat 0
  mul_self_nonneg' : ∀ a : α, ofNat 0 ≤ a * a
  mul_le_mul' : ∀ {a b c d : α}, ofNat 0 ≤ a → a ≤ b → ofNat 0 ≤ c → c ≤ d → a * c ≤ b * d
  mul_le_of_le_one_right' : ∀ {a b : α}, ofNat 0 ≤ a → b ≤ ofNat 1 → a * b ≤ a
  mul_le_of_le_one_left' : ∀ {a b : α}, ofNat 0 ≤ b → a ≤ ofNat 1 → a * b ≤ b
  le_mul_of_one_le_right' : ∀ {a b : α}, ofNat 0 ≤ a → ofNat 1 ≤ b → a ≤ a * b
  -- division (the divisor is strictly positive wherever the code divides: C08)
  div_nonneg' : ∀ {a b : α}, ofNat 0 ≤ a → ofNat 0 < b → ofNat 0 ≤ a / b
  div_nonpos' : ∀ {a b : α}, a ≤ ofNat 0 → ofNat 0 < b → a / b ≤ ofNat 0
  div_le_div_right' : ∀ {a b c : α}, a ≤ b → ofNat 0 < c → a / c ≤ b / c
  div_le_one' : ∀ {a b : α}, a ≤ b → ofNat 0 < b → a / b ≤ ofNat 1
  div_self' : ∀ {a : α}, ofNat 0 < a → a / a = ofNat 1
  div_le_self' : ∀ {a b : α}, ofNat 0 ≤ a → ofNat 1 ≤ b → a / b ≤ a
  -- square root (correctly rounded, hence monotone), exp, Φ, φ (sign and range only)
  sqrt_nonneg' : ∀ a : α, ofNat 0 ≤ sqrt a
  sqrt_pos' : ∀ {a : α}, ofNat 0 < a → ofNat 0 < sqrt a
  sqrt_le_sqrt' : ∀ {a b : α}, a ≤ b → sqrt a ≤ sqrt b
  sqrt_le_one' : ∀ {a : α}, a ≤ ofNat 1 → sqrt a ≤ ofNat 1
  exp_nonneg' : ∀ a : α, ofNat 0 ≤ exp a
  Phi_nonneg' : ∀ a : α, ofNat 0 ≤ Phi a
  Phi_le_one' : ∀ a : α, Phi a ≤ ofNat 1
  phi_nonneg' : ∀ a : α, ofNat 0 ≤ phi a
  -- the small integers are exact
  ofNat_le' : ∀ {m n : Nat}, m ≤ n → (ofNat m : α) ≤ ofNat n
  ofNat_lt' : ∀ {m n : Nat}, m < n → (ofNat m : α) < ofNat n
  ofNat_add' : ∀ m n : Nat, (ofNat m : α) + ofNat n = ofNat (m + n)
  ofNat_mul_div' : ∀ {m n : Nat}, 0 < n → (ofNat (m * n) : α) / ofNat n = ofNat m

end OS
