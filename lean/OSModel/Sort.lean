/-
  common.py :: _unwind(tenet, objects)
  `list.sort(key=…)` is stable; core `List.mergeSort` is stable too.
-/
namespace OS

def sortByKey {κ β : Type} (le : κ → κ → Bool) (l : List (κ × β)) : List (κ × β) :=
  l.mergeSort (fun a b => le a.1 b.1)

/-- `_unwind(tenet, objects)`: the objects sorted by tenet, and their original indices
    in sorted order. -/
def unwind {κ β : Type} (le : κ → κ → Bool) (tenet : List κ) (objs : List β) :
    List β × List Nat :=
  let s := sortByKey le (tenet.zip objs.zipIdx)
  (s.map (·.2.1), s.map (·.2.2))

/-- `sorted(ranks)` (the keys in the order the stable key sort leaves them) -/
def sortedKeys {κ : Type} (le : κ → κ → Bool) (tenet : List κ) : List κ :=
  (sortByKey le (tenet.zip tenet.zipIdx)).map (·.1)

def leNat : Nat → Nat → Bool := fun a b => decide (a ≤ b)

end OS
