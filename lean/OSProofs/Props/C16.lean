import OSProofs.RealInst
import OSProofs.GammaRealLemmas
import Mathlib.Tactic.FieldSimp
import Mathlib.Tactic.Ring
import Mathlib.Tactic.Positivity
/-!
# C16 — results do not depend on the unit or origin of the skill scale (pair level)

Scaling every mu, sigma and beta (tau enters only through the inflated sigmas) by `k > 0`
multiplies the Bradley–Terry pair contribution to omega by `k` and leaves the contribution to
delta unchanged (default gamma or any gamma of degree 0); shifting both team mus by a constant
changes nothing.  The game-level statements follow by summing pairs.
-/
noncomputable section
namespace OS
open Scalar

/-- a team aggregate in rescaled units -/
def TeamAgg.scale (k : ℝ) (t : TeamAgg ℝ) : TeamAgg ℝ :=
  { mu := k * t.mu, sig2 := k ^ 2 * t.sig2, rank := t.rank,
    players := t.players.map (fun p => { p with mu := k * p.mu, sigma := k * p.sigma }) }

/-- a team aggregate with every total mu shifted -/
def TeamAgg.shift (d : ℝ) (t : TeamAgg ℝ) : TeamAgg ℝ := { t with mu := t.mu + d }

theorem sqrt_scale (k x : ℝ) (hk : 0 < k) : Real.sqrt (k ^ 2 * x) = k * Real.sqrt x := by
  rw [Real.sqrt_mul (by positivity), Real.sqrt_sq hk.le]

/-- Bradley–Terry pair term under a change of unit, default gamma -/
theorem C16_btPair_scale (k β : ℝ) (hk : 0 < k) (n : Nat) (ti tq : TeamAgg ℝ)
    (hc : 0 < ti.sig2 + tq.sig2 + 2 * (β * β)) :
    btPair (k * β) .dflt n (ti.scale k) (tq.scale k)
      = (k * (btPair β .dflt n ti tq).1, (btPair β .dflt n ti tq).2) := by
  have hcs : Real.sqrt (k ^ 2 * ti.sig2 + k ^ 2 * tq.sig2 + 2 * (k * β * (k * β)))
      = k * Real.sqrt (ti.sig2 + tq.sig2 + 2 * (β * β)) := by
    rw [← sqrt_scale k _ hk]; congr 1; ring
  have hpos : 0 < Real.sqrt (ti.sig2 + tq.sig2 + 2 * (β * β)) := Real.sqrt_pos.mpr hc
  have hsi : Real.sqrt (k ^ 2 * ti.sig2) = k * Real.sqrt ti.sig2 := sqrt_scale k _ hk
  have hexp : (k * tq.mu - k * ti.mu) / (k * Real.sqrt (ti.sig2 + tq.sig2 + 2 * (β * β)))
      = (tq.mu - ti.mu) / Real.sqrt (ti.sig2 + tq.sig2 + 2 * (β * β)) := by
    field_simp
  simp only [btPair, TeamAgg.scale, gammaVal, sc_sqrt, sc_exp, sc_ofNat, Nat.cast_ofNat, Nat.cast_one,
    Nat.cast_zero, hcs, hsi, hexp]
  refine Prod.ext ?_ ?_
  · simp only []; field_simp
  · simp only []; field_simp

/-- Bradley–Terry pair term under a common shift of the origin: unchanged, for any gamma callback that
does not read the team mu (`GammaMuFree`: every tagged member, the team-reading callback, …) -/
theorem C16_btPair_shift (d β : ℝ) (g : GammaFn ℝ) (hg : GammaMuFree g) (n : Nat) (ti tq : TeamAgg ℝ) :
    btPair β g n (ti.shift d) (tq.shift d) = btPair β g n ti tq := by
  have h : tq.mu + d - (ti.mu + d) = tq.mu - ti.mu := by ring
  simp only [btPair, TeamAgg.shift, h, hg _ n ti.mu (ti.mu + d)]
  rfl

/-- the statement for the tagged family (none of its members reads the team mu) -/
theorem C16_btPair_shift_tagged (d β : ℝ) (g : GammaFn ℝ) (hg : g.Tagged) (n : Nat) (ti tq : TeamAgg ℝ) :
    btPair β g n (ti.shift d) (tq.shift d) = btPair β g n ti tq :=
  C16_btPair_shift d β g (gam_tagged_muFree hg) n ti tq

/-- Thurstone–Mosteller pair term under a common shift of the origin: unchanged (any gamma callback
that does not read the team mu) -/
theorem C16_tmPair_shift (L : Leaves ℝ) (cmul d β κ : ℝ) (g : GammaFn ℝ) (hg : GammaMuFree g) (n : Nat)
    (ti tq : TeamAgg ℝ) :
    tmPair L cmul β κ g n (ti.shift d) (tq.shift d) = tmPair L cmul β κ g n ti tq := by
  have h : ti.mu + d - (tq.mu + d) = ti.mu - tq.mu := by ring
  simp only [tmPair, TeamAgg.shift, h, hg _ n ti.mu (ti.mu + d)]

/-- the statement for the tagged family -/
theorem C16_tmPair_shift_tagged (L : Leaves ℝ) (cmul d β κ : ℝ) (g : GammaFn ℝ) (hg : g.Tagged) (n : Nat)
    (ti tq : TeamAgg ℝ) :
    tmPair L cmul β κ g n (ti.shift d) (tq.shift d) = tmPair L cmul β κ g n ti tq :=
  C16_tmPair_shift L cmul d β κ g (gam_tagged_muFree hg) n ti tq

/-- the pairwise prediction term is invariant under a change of unit … -/
theorem C16_predict_pair_scale (k β : ℝ) (hk : 0 < k) (nb : Nat) (a b : TeamAgg ℝ) (m : ℝ)
    (hc : 0 < (nb : ℝ) * (β * β) + a.sig2 + b.sig2) :
    ((a.scale k).mu - (b.scale k).mu - k * m) / pairDenom nb (k * β) (a.scale k) (b.scale k)
      = (a.mu - b.mu - m) / pairDenom nb β a b := by
  have hcs : Real.sqrt ((nb : ℝ) * (k * β * (k * β)) + k ^ 2 * a.sig2 + k ^ 2 * b.sig2)
      = k * Real.sqrt ((nb : ℝ) * (β * β) + a.sig2 + b.sig2) := by
    rw [← sqrt_scale k _ hk]; congr 1; ring
  have hpos : 0 < Real.sqrt ((nb : ℝ) * (β * β) + a.sig2 + b.sig2) := Real.sqrt_pos.mpr hc
  simp only [pairDenom, TeamAgg.scale, sc_sqrt, sc_ofNat, hcs]
  field_simp

/-- … and under a shift of the origin -/
theorem C16_predict_pair_shift (d β : ℝ) (nb : Nat) (a b : TeamAgg ℝ) (m : ℝ) :
    ((a.shift d).mu - (b.shift d).mu - m) / pairDenom nb β (a.shift d) (b.shift d)
      = (a.mu - b.mu - m) / pairDenom nb β a b := by
  simp only [pairDenom, TeamAgg.shift]
  congr 1; ring

/-- the draw margin scales with the unit -/
theorem C16_drawMargin_scale (k β : ℝ) (N : Nat) : drawMargin (k * β) N = k * drawMargin β N := by
  simp only [drawMargin]; ring

end OS
end
