import OSProofs.Props.C11
import OSProofs.Props.C11b
import OSProofs.CodeShaped
import OSProofs.Props.FL2
import OSProofs.MonoArithInst
import OSProofs.Props.PredictLoops
import OSProofs.Props.FL4Inst
import OSProofs.Props.FL5Inst
#print axioms OS.C11_ranks_length
#print axioms OS.C11_rankData_range
#print axioms OS.C11_rankData_strict
#print axioms OS.C11_rank_range
#print axioms OS.C11_rank_strict
#print axioms OS.C11_rank_tie
#print axioms OS.C11_rank_lt_iff
#print axioms OS.C11_rank_eq_iff
#print axioms OS.C11_rank_max_one
#print axioms OS.C11_rank_one_exists
#print axioms OS.C11_predictRank_probs
#print axioms OS.C11_predictRank_ranks
#print axioms OS.C11_predictRank_length
#print axioms OS.C11_predictRank_range
#print axioms OS.C11_predictRank_lt_iff
#print axioms OS.C11_predictRank_strict
#print axioms OS.C11_predictRank_eq_iff
#print axioms OS.C11_predictRank_tie
#print axioms OS.C11_predictRank_max_one
#print axioms OS.C11_pair_identity
#print axioms OS.C11_rankPair_add_drawPair
#print axioms OS.C11_sum_rank_probs
#print axioms OS.C11_sum_predictRank
#print axioms OS.C11_sum_pairs
#print axioms OS.C11_sum_one_of_margin_nonneg
#print axioms OS.C11_sum_one
#print axioms OS.C11_two_team_sum
#print axioms OS.C11_two_team_sum_gt_one
#print axioms OS.rankDataCode_eq
#print axioms OS.MonoArith.real
#print axioms OS.MonoArith.rn
#print axioms OS.truncRounding
#print axioms OS.truncRounding_lossy
#print axioms OS.truncRounding_ne_id
#print axioms OS.FL_C11_probs_range
#print axioms OS.FL_C11_probs_range_all
#print axioms OS.FL_C11_probs_length
#print axioms OS.FL_C11_length
#print axioms OS.FL_C11_paired_probs_range
#print axioms OS.FL_C11_ranks_range
#print axioms OS.FL_C11_ranks_strict
#print axioms OS.FL_C11_ranks_tie
#print axioms OS.FL_C11_ranks_lt_iff
#print axioms OS.FL_C11_ranks_max_one
#print axioms OS.predictRankLoop_eq
#print axioms OS.predictRankLoop_eq_real
#print axioms OS.MonoArith.orderLaws
#print axioms OS.rankDataCode_eq_of_preorder
#print axioms OS.rankDataCode_eq_mono
#print axioms OS.predictRankLoop_eq_of_preorder
#print axioms OS.predictRankLoop_eq_mono
#print axioms OS.rankDataCode_eq_rn
#print axioms OS.predictRankLoop_eq_rn
#print axioms OS.FL_C11_probs_monotone_team_own
#print axioms OS.FL_C11_probs_monotone_team_other
#print axioms OS.FL_C11_probs_monotone_own
#print axioms OS.FL_C11_probs_monotone_other
#print axioms OS.FL_C11_probs_monotone_own_rn
#print axioms OS.FL_C11_probs_monotone_other_rn
#print axioms OS.PhiMono.real
#print axioms OS.PhiMono.rn
#print axioms OS.FL5_PhiMono_independent
