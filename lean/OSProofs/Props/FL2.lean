import OSProofs.FL2Lemmas
/-!
# FL2 — the prediction ranges (C09, C10, C11) hold exactly in every arithmetic with monotone rounding

The theorems of `Props/C09.lean`, `C10.lean`, `C11.lean` are about the model at `α := ℝ`.  Here the
*range* statements (a probability is never outside [0, 1]; an integer rank is in `1..n` and agrees
with the order of the probabilities) are proved for **every** scalar type `α` that satisfies the
order laws `MonoArith α` — for ℝ, for every "compute exactly, then round monotonically" arithmetic
and hence for IEEE doubles without NaN / overflow.  No field axiom, no analytic fact about Φ beyond
`0 ≤ Φ ≤ 1` is used; the functions are the model functions themselves (`predictWin`, `predictDraw`,
`predictRankProbs`, `predictRank`), evaluated in `α`.

Only `FL_C10_le_one_many` needs two facts that `MonoArith` does not list (they concern negation,
about which `MonoArith` only has monotonicity); they are explicit hypotheses `hna`, `hn1`, see there.
-/
namespace OS
open Scalar

/-- the value `Φ((θa − θb) / √(N β² + s²a + s²b))` computed on the two-team path of `predict_win` -/
def fl2_winTwo {α : Type} [Scalar α] (β : α) (a b : List (Rating α)) : α :=
  Phi (((teamAgg a 0).mu - (teamAgg b 0).mu)
    / pairDenom (playerCount [a, b]) β (teamAgg a 0) (teamAgg b 0))

variable {α : Type} [Scalar α] (M : MonoArith α)
include M

/-! ## C09 — `predict_win` -/

/-- **Two teams.**  `predict_win` returns `[r, 1 − r]` with `r` one value of Φ; both entries, as
computed (the second one by a rounded subtraction), lie in [0, 1]. -/
theorem FL_C09_two (β : α) (a b : List (Rating α)) :
    predictWin β [a, b] = [fl2_winTwo β a b, ofNat 1 - fl2_winTwo β a b]
      ∧ (ofNat 0 ≤ fl2_winTwo β a b ∧ fl2_winTwo β a b ≤ ofNat 1)
      ∧ (ofNat 0 ≤ ofNat 1 - fl2_winTwo β a b ∧ ofNat 1 - fl2_winTwo β a b ≤ ofNat 1) :=
  ⟨rfl, ⟨M.Phi_nonneg' _, M.Phi_le_one' _⟩,
    ⟨M.sub_nonneg' (M.Phi_le_one' _), M.sub_le_self' (M.Phi_nonneg' _)⟩⟩

/-- **Any number of teams** (also 0 or 1, where the result is empty): every entry of
`predict_win`, as computed, lies in [0, 1]. -/
theorem FL_C09_range_all (β : α) (teams : List (List (Rating α))) :
    ∀ p ∈ predictWin β teams, ofNat 0 ≤ p ∧ p ≤ ofNat 1 := by
  unfold predictWin
  split
  · intro p hp
    simp only [List.mem_cons, List.not_mem_nil, or_false] at hp
    rcases hp with rfl | rfl
    · exact ⟨M.Phi_nonneg' _, M.Phi_le_one' _⟩
    · exact ⟨M.sub_nonneg' (M.Phi_le_one' _), M.sub_le_self' (M.Phi_nonneg' _)⟩
  · dsimp only
    intro p hp
    have h := fl2_window_range_pairs M (aggs teams)
      (fun ab => Phi ((ab.1.mu - ab.2.mu) / pairDenom teams.length β ab.1 ab.2))
      (fun ab => ⟨M.Phi_nonneg' _, M.Phi_le_one' _⟩)
    rw [fl2_length_aggs] at h
    exact h p hp

/-- **Three or more teams**: every entry of `predict_win` (a sum of `n − 1` values of Φ divided
by `n (n − 1) / 2`), as computed, lies in [0, 1]. -/
theorem FL_C09_range (β : α) (teams : List (List (Rating α))) (_hn : 3 ≤ teams.length) :
    ∀ p ∈ predictWin β teams, ofNat 0 ≤ p ∧ p ≤ ofNat 1 :=
  FL_C09_range_all M β teams

/-- **Two or more teams** (both code paths): every entry of `predict_win` lies in [0, 1]. -/
theorem FL_C09_range_two_or_more (β : α) (teams : List (List (Rating α)))
    (_hn : 2 ≤ teams.length) : ∀ p ∈ predictWin β teams, ofNat 0 ≤ p ∧ p ≤ ofNat 1 :=
  FL_C09_range_all M β teams

omit M in
/-- `predict_win` returns one entry per team (two or more teams; scalar-free). -/
theorem FL_C09_length (β : α) (teams : List (List (Rating α))) (hn : 2 ≤ teams.length) :
    (predictWin β teams).length = teams.length := by
  have hl := fl2_length_aggs teams
  unfold predictWin
  split
  · rename_i a b h
    rw [h] at hl
    rw [← hl]
    rfl
  · dsimp only
    rw [List.length_map, ← hl]
    exact fl2_chunk_orderedPairs_count (aggs teams) (by omega) _

/-! ## C11 — `predict_rank` -/

/-- every probability of `predict_rank` (before it is paired with its rank), as computed, lies in
[0, 1] — for any number of teams -/
theorem FL_C11_probs_range_all (β : α) (teams : List (List (Rating α))) :
    ∀ p ∈ predictRankProbs β teams, ofNat 0 ≤ p ∧ p ≤ ofNat 1 := by
  unfold predictRankProbs
  dsimp only
  intro p hp
  obtain ⟨q, hq, rfl⟩ := List.mem_map.mp hp
  have h := fl2_window_range_pairs M (aggs teams)
    (fun ab => Phi ((ab.1.mu - ab.2.mu - drawMargin β (playerCount teams))
      / pairDenom teams.length β ab.1 ab.2))
    (fun ab => ⟨M.Phi_nonneg' _, M.Phi_le_one' _⟩)
  rw [fl2_length_aggs] at h
  have hq' := h q hq
  rw [fl2_sabs_of_nonneg M hq'.1]
  exact hq'

/-- **Two or more teams**: every probability returned by `predict_rank`, as computed, lies in [0, 1]. -/
theorem FL_C11_probs_range (β : α) (teams : List (List (Rating α))) (_hn : 2 ≤ teams.length) :
    ∀ p ∈ predictRankProbs β teams, ofNat 0 ≤ p ∧ p ≤ ofNat 1 :=
  FL_C11_probs_range_all M β teams

omit M in
/-- one probability per team (two or more teams; scalar-free) -/
theorem FL_C11_probs_length (β : α) (teams : List (List (Rating α))) (hn : 2 ≤ teams.length) :
    (predictRankProbs β teams).length = teams.length := by
  have hl := fl2_length_aggs teams
  unfold predictRankProbs
  dsimp only
  rw [List.length_map, List.length_map, ← hl]
  exact fl2_chunk_orderedPairs_count (aggs teams) (by omega) _

omit M in
/-- `predictRank` pairs the integer ranks `max(rankData) − rankData + 1` with the probabilities. -/
theorem fl2_predictRank_eq_zip (β : α) (teams : List (List (Rating α))) :
    predictRank β teams
      = (fl2_finalRanks (predictRankProbs β teams)).zip (predictRankProbs β teams) := rfl

omit M in
/-- `predict_rank` returns one (rank, probability) pair per probability … -/
theorem FL_C11_length' (β : α) (teams : List (List (Rating α))) :
    (predictRank β teams).length = (predictRankProbs β teams).length := by
  rw [fl2_predictRank_eq_zip, List.length_zip, fl2_finalRanks_length, Nat.min_self]

omit M in
/-- … hence one per team (two or more teams; scalar-free) -/
theorem FL_C11_length (β : α) (teams : List (List (Rating α))) (hn : 2 ≤ teams.length) :
    (predictRank β teams).length = teams.length := by
  rw [FL_C11_length', FL_C11_probs_length β teams hn]

omit M in
/-- the second components of `predict_rank` are the probabilities, in order -/
theorem FL_C11_probs (β : α) (teams : List (List (Rating α))) :
    (predictRank β teams).map (·.2) = predictRankProbs β teams := by
  rw [fl2_predictRank_eq_zip]
  exact List.map_snd_zip (by rw [fl2_finalRanks_length]; exact Nat.le_refl _)

omit M in
theorem fl2_predictRank_getElem (β : α) (teams : List (List (Rating α))) (a : Nat)
    (ha : a < (predictRank β teams).length) :
    (predictRank β teams)[a]
      = ((fl2_finalRanks (predictRankProbs β teams))[a]'(by
            rw [fl2_finalRanks_length, ← FL_C11_length']; exact ha),
         (predictRankProbs β teams)[a]'(by rw [← FL_C11_length']; exact ha)) := by
  simp only [fl2_predictRank_eq_zip, List.getElem_zip]

/-- every probability paired with a rank lies in [0, 1] -/
theorem FL_C11_paired_probs_range (β : α) (teams : List (List (Rating α))) :
    ∀ q ∈ predictRank β teams, ofNat 0 ≤ q.2 ∧ q.2 ≤ ofNat 1 := by
  intro q hq
  apply FL_C11_probs_range_all M β teams
  rw [← FL_C11_probs]
  exact List.mem_map.mpr ⟨q, hq, rfl⟩

/-- every rank returned by `predict_rank` is an integer in `1..(number of results)` -/
theorem FL_C11_ranks_range (β : α) (teams : List (List (Rating α))) (a : Nat)
    (ha : a < (predictRank β teams).length) :
    1 ≤ (predictRank β teams)[a].1
      ∧ (predictRank β teams)[a].1 ≤ (predictRank β teams).length := by
  have ha' : a < (predictRankProbs β teams).length := by
    rw [← FL_C11_length']; exact ha
  have h := fl2_rank_range M _ a ha'
  rw [fl2_predictRank_getElem β teams a ha]
  exact ⟨h.1, Nat.le_trans h.2 (Nat.le_of_eq (FL_C11_length' β teams).symm)⟩

/-- a strictly larger computed probability gets a strictly smaller (better) rank number -/
theorem FL_C11_ranks_strict (β : α) (teams : List (List (Rating α))) (a b : Nat)
    (ha : a < (predictRank β teams).length) (hb : b < (predictRank β teams).length)
    (h : (predictRank β teams)[a].2 < (predictRank β teams)[b].2) :
    (predictRank β teams)[b].1 < (predictRank β teams)[a].1 := by
  rw [fl2_predictRank_getElem β teams a ha, fl2_predictRank_getElem β teams b hb] at h ⊢
  exact fl2_rank_strict M _ b a _ _ h

/-- computed probabilities that are `≤` each other (in particular: equal ones) get the same rank -/
theorem FL_C11_ranks_tie (β : α) (teams : List (List (Rating α))) (a b : Nat)
    (ha : a < (predictRank β teams).length) (hb : b < (predictRank β teams).length)
    (h1 : (predictRank β teams)[a].2 ≤ (predictRank β teams)[b].2)
    (h2 : (predictRank β teams)[b].2 ≤ (predictRank β teams)[a].2) :
    (predictRank β teams)[a].1 = (predictRank β teams)[b].1 := by
  rw [fl2_predictRank_getElem β teams a ha, fl2_predictRank_getElem β teams b hb] at h1 h2 ⊢
  exact fl2_rank_tie M _ a b _ _ h1 h2

/-- the converse directions: the rank numbers order the teams exactly as the probabilities do -/
theorem FL_C11_ranks_lt_iff (β : α) (teams : List (List (Rating α))) (a b : Nat)
    (ha : a < (predictRank β teams).length) (hb : b < (predictRank β teams).length) :
    (predictRank β teams)[b].1 < (predictRank β teams)[a].1
      ↔ (predictRank β teams)[a].2 < (predictRank β teams)[b].2 := by
  constructor
  · intro hlt
    apply M.lt_iff_not_le'.mpr
    intro hle
    rcases M.le_total' (predictRank β teams)[a].2 (predictRank β teams)[b].2 with h | h
    · have := FL_C11_ranks_tie M β teams a b ha hb h hle
      omega
    · by_cases hs : (predictRank β teams)[b].2 < (predictRank β teams)[a].2
      · have := FL_C11_ranks_strict M β teams b a hb ha hs
        omega
      · have := FL_C11_ranks_tie M β teams a b ha hb (fl2_le_of_not_lt M hs) hle
        omega
  · exact FL_C11_ranks_strict M β teams a b ha hb

/-- a team whose computed probability is `≥` all others gets rank 1 -/
theorem FL_C11_ranks_max_one (β : α) (teams : List (List (Rating α))) (a : Nat)
    (ha : a < (predictRank β teams).length)
    (hmax : ∀ q ∈ predictRank β teams, q.2 ≤ (predictRank β teams)[a].2) :
    (predictRank β teams)[a].1 = 1 := by
  have ha' : a < (predictRankProbs β teams).length := by
    rw [← FL_C11_length']; exact ha
  have hmax' : ∀ y ∈ predictRankProbs β teams, y ≤ (predictRankProbs β teams)[a] := by
    intro y hy
    rw [← FL_C11_probs] at hy
    obtain ⟨q, hq, rfl⟩ := List.mem_map.mp hy
    have := hmax q hq
    rwa [fl2_predictRank_getElem β teams a ha] at this
  rw [fl2_predictRank_getElem β teams a ha]
  exact fl2_rank_max_one M _ a ha' hmax'

/-- **`predict_rank`, all rank statements together**: for the list of (rank, probability) pairs
returned, (1) every rank is in `1..n`; (2) a strictly larger probability has a strictly smaller rank
number; (3) probabilities that are `≤` each other have the same rank; (4) a team whose probability
is `≥` all others has rank 1.  Comparisons are those of the arithmetic `α` itself. -/
theorem FL_C11_ranks (β : α) (teams : List (List (Rating α))) :
    (∀ (a : Nat) (ha : a < (predictRank β teams).length),
        1 ≤ (predictRank β teams)[a].1
          ∧ (predictRank β teams)[a].1 ≤ (predictRank β teams).length)
    ∧ (∀ (a b : Nat) (ha : a < (predictRank β teams).length)
        (hb : b < (predictRank β teams).length),
        (predictRank β teams)[a].2 < (predictRank β teams)[b].2 →
          (predictRank β teams)[b].1 < (predictRank β teams)[a].1)
    ∧ (∀ (a b : Nat) (ha : a < (predictRank β teams).length)
        (hb : b < (predictRank β teams).length),
        (predictRank β teams)[a].2 ≤ (predictRank β teams)[b].2 →
        (predictRank β teams)[b].2 ≤ (predictRank β teams)[a].2 →
          (predictRank β teams)[a].1 = (predictRank β teams)[b].1)
    ∧ (∀ (a : Nat) (ha : a < (predictRank β teams).length),
        (∀ q ∈ predictRank β teams, q.2 ≤ (predictRank β teams)[a].2) →
          (predictRank β teams)[a].1 = 1) :=
  ⟨fun a ha => FL_C11_ranks_range M β teams a ha,
   fun a b ha hb h => FL_C11_ranks_strict M β teams a b ha hb h,
   fun a b ha hb h1 h2 => FL_C11_ranks_tie M β teams a b ha hb h1 h2,
   fun a ha h => FL_C11_ranks_max_one M β teams a ha h⟩

/-! ## C10 — `predict_draw` -/

/-- the divisor of `predict_draw` (`n (n − 1)` for more than two teams, else 1), as computed, is
strictly positive -/
theorem fl2_drawDenom_pos (n : Nat) :
    (ofNat 0 : α) < (if n > 2 then ofNat (n * (n - 1)) else ofNat 1) := by
  split
  · next h => exact fl2_ofNat_pos M (Nat.mul_pos (by omega) (by omega))
  · exact fl2_zero_lt_one M

/-- `predict_draw`, as computed, is never negative (any number of teams; the divisor is `n (n − 1)`
or `1`, an exact positive integer). -/
theorem FL_C10_nonneg (β : α) (teams : List (List (Rating α))) :
    ofNat 0 ≤ predictDraw β teams := by
  unfold predictDraw
  dsimp only
  exact M.div_nonneg' (fl2_sabs_nonneg M _) (fl2_drawDenom_pos M teams.length)

/-- **Three or more teams**: `predict_draw`, as computed, is at most 1.

Extra hypotheses (not in `MonoArith`, which has no law linking negation to `+`/`−`):
* `hna : −(a + b) ≤ (−a) + (−b)` — the computed sum is sign-symmetric.  For "exact then round" with a
  sign-symmetric rounding `r`: `−r(a + b) = r(−a − b) = r((−a) + (−b))`, an equality; IEEE negation
  is exact and `+` is sign-symmetric in every symmetric rounding mode (round-to-nearest-even,
  toward zero).
* `hn1 : −(0 − 1) ≤ 1` — one concrete computation on small integers (`0 − 1 = −1` and `−(−1) = 1`
  are exact).  It follows from the general law `−(a − b) ≤ b − a` (`fl2_neg_one_of_neg_sub`). -/
theorem FL_C10_le_one_many (hna : ∀ a b : α, -(a + b) ≤ -a + -b)
    (hn1 : -(ofNat 0 - ofNat 1 : α) ≤ ofNat 1)
    (β : α) (teams : List (List (Rating α))) (hn : 3 ≤ teams.length) :
    predictDraw β teams ≤ ofNat 1 := by
  have hpos : (ofNat 0 : α) < ofNat (teams.length * (teams.length - 1)) :=
    fl2_ofNat_pos M (Nat.mul_pos (by omega) (by omega))
  have key := fl2_draw_sum_le M hna hn1 (aggs teams)
    (fun ab => (drawMargin β (playerCount teams) - ab.1.mu + ab.2.mu)
      / pairDenom teams.length β ab.1 ab.2)
    (fun ab => (ab.1.mu - ab.2.mu - drawMargin β (playerCount teams))
      / pairDenom teams.length β ab.1 ab.2)
  rw [fl2_length_aggs] at key
  unfold predictDraw
  dsimp only
  rw [if_pos (by omega : teams.length > 2)]
  exact M.div_le_one' key hpos

/-- `predict_draw` for three or more teams is in [0, 1] (both bounds together) -/
theorem FL_C10_range_many (hna : ∀ a b : α, -(a + b) ≤ -a + -b)
    (hn1 : -(ofNat 0 - ofNat 1 : α) ≤ ofNat 1)
    (β : α) (teams : List (List (Rating α))) (hn : 3 ≤ teams.length) :
    ofNat 0 ≤ predictDraw β teams ∧ predictDraw β teams ≤ ofNat 1 :=
  ⟨FL_C10_nonneg M β teams, FL_C10_le_one_many M hna hn1 β teams hn⟩

/-- `predict_draw ≤ 1` for three or more teams in every monotone arithmetic, with no side hypothesis: the two sign-symmetry facts are
laws of `MonoArith` (`neg_add_le'`, `neg_sub_le'`), proved for ℝ and for every exact-then-round arithmetic -/
theorem FL_C10_le_one_many' (β : α) (teams : List (List (Rating α))) (hn : 3 ≤ teams.length) :
    predictDraw β teams ≤ ofNat 1 :=
  FL_C10_le_one_many M M.neg_add_le' (fl2_neg_one_of_neg_sub M M.neg_sub_le') β teams hn

theorem FL_C10_range_many' (β : α) (teams : List (List (Rating α))) (hn : 3 ≤ teams.length) :
    ofNat 0 ≤ predictDraw β teams ∧ predictDraw β teams ≤ ofNat 1 :=
  ⟨FL_C10_nonneg M β teams, FL_C10_le_one_many' M β teams hn⟩

/-! ## the hypotheses are satisfiable: concrete game shapes (`M` stays abstract) -/

example (β : α) (a b : List (Rating α)) :
    ofNat 0 ≤ ofNat 1 - fl2_winTwo β a b ∧ ofNat 1 - fl2_winTwo β a b ≤ ofNat 1 :=
  (FL_C09_two M β a b).2.2

example (β : α) (t1 t2 t3 : List (Rating α)) :
    ∀ p ∈ predictWin β [t1, t2, t3], ofNat 0 ≤ p ∧ p ≤ ofNat 1 :=
  FL_C09_range M β [t1, t2, t3] (by simp)

example (β : α) (t1 t2 : List (Rating α)) :
    ∀ p ∈ predictWin β [t1, t2], ofNat 0 ≤ p ∧ p ≤ ofNat 1 :=
  FL_C09_range_two_or_more M β [t1, t2] (by simp)

omit M in
example (β : α) (t1 t2 t3 : List (Rating α)) : (predictWin β [t1, t2, t3]).length = 3 :=
  FL_C09_length β [t1, t2, t3] (by simp)

example (β : α) (t1 t2 : List (Rating α)) :
    ∀ p ∈ predictRankProbs β [t1, t2], ofNat 0 ≤ p ∧ p ≤ ofNat 1 :=
  FL_C11_probs_range M β [t1, t2] (by simp)

omit M in
example (β : α) (t1 t2 t3 : List (Rating α)) : (predictRank β [t1, t2, t3]).length = 3 :=
  FL_C11_length β [t1, t2, t3] (by simp)

/-- three teams: team 0 has rank 1 as soon as its computed probability is `≥` the other two -/
example (β : α) (t1 t2 t3 : List (Rating α))
    (h0 : 0 < (predictRank β [t1, t2, t3]).length)
    (hmax : ∀ q ∈ predictRank β [t1, t2, t3], q.2 ≤ (predictRank β [t1, t2, t3])[0].2) :
    (predictRank β [t1, t2, t3])[0].1 = 1 :=
  (FL_C11_ranks M β [t1, t2, t3]).2.2.2 0 h0 hmax

example (β : α) (t1 t2 : List (Rating α)) : ofNat 0 ≤ predictDraw β [t1, t2] :=
  FL_C10_nonneg M β [t1, t2]

example (hna : ∀ a b : α, -(a + b) ≤ -a + -b) (hns : ∀ a b : α, -(a - b) ≤ b - a)
    (β : α) (t1 t2 t3 : List (Rating α)) : predictDraw β [t1, t2, t3] ≤ ofNat 1 :=
  FL_C10_le_one_many M hna (fl2_neg_one_of_neg_sub M hns) β [t1, t2, t3] (by simp)

end OS
