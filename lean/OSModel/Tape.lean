import OSModel.Scalar
/-
  Tape: a straight-line arithmetic program (one node per operation, operands are earlier node
  numbers), evaluated over any `Scalar`.

  The correspondence harness runs the real Python code on instrumented floats that record every
  arithmetic operation, library call (`sqrt`, `exp`, `erfc`, the normal cdf / pdf / quantile) and
  comparison the code performs on them; the recorded tape is the function of the inputs that the code
  computed on that path.  Evaluated on big floats it gives the value of the code's formula free of
  double rounding, which is compared with the model evaluated on the same big floats.
-/
namespace OS
open Scalar

inductive TNode (α : Type) where
  | const (x : α)
  | add (a b : Nat) | sub (a b : Nat) | mul (a b : Nat) | div (a b : Nat)
  | neg (a : Nat) | abs (a : Nat) | sqrt (a : Nat) | exp (a : Nat)
  | erfc (a : Nat) | cdf (a : Nat) | pdf (a : Nat) | icdf (a : Nat)
  /-- a comparison the code made, with the answer it got on doubles -/
  | lt (a b : Nat) (o : Bool) | le (a b : Nat) (o : Bool) | eq (a b : Nat) (o : Bool)

variable {α : Type} [Scalar α]

/-- `erfc z = 2 Φ(−√2 z)` -/
def serfc (z : α) : α := ofNat 2 * Phi (-(sqrt (ofNat 2) * z))

/-- one step: the value of a node given the values of the earlier ones, and whether a recorded
comparison comes out differently over `α` -/
def evalNode (vals : Array α) (n : TNode α) : α × Bool :=
  let g (i : Nat) : α := vals.getD i (ofNat 0)
  match n with
  | .const x => (x, false)
  | .add a b => (g a + g b, false)
  | .sub a b => (g a - g b, false)
  | .mul a b => (g a * g b, false)
  | .div a b => (g a / g b, false)
  | .neg a => (-(g a), false)
  | .abs a => (sabs (g a), false)
  | .sqrt a => (sqrt (g a), false)
  | .exp a => (exp (g a), false)
  | .erfc a => (serfc (g a), false)
  | .cdf a => (Phi (g a), false)
  | .pdf a => (phi (g a), false)
  | .icdf a => (PhiInv (g a), false)
  | .lt a b o => (ofNat 0, decide (g a < g b) != o)
  | .le a b o => (ofNat 0, decide (g a ≤ g b) != o)
  | .eq a b o => (ofNat 0, (decide (g a ≤ g b) && decide (g b ≤ g a)) != o)

/-- all node values, and the number of recorded comparisons that come out differently -/
def evalTape (nodes : List (TNode α)) : Array α × Nat :=
  nodes.foldl (fun (acc : Array α × Nat) n =>
    let (v, d) := evalNode acc.1 n
    (acc.1.push v, if d then acc.2 + 1 else acc.2)) (#[], 0)

end OS
