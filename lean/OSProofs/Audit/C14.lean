import OSProofs.Props.C14
#print axioms OS.C14_attrs_unchanged
#print axioms OS.runHistory_eq
#print axioms OS.C14_history_irrelevant
#print axioms Sched.commute
#print axioms Sched.interleave_serial
#print axioms Sched.interleave_serial'
#print axioms Sched.shuffle_serial
#print axioms Sched.calls_indep
#print axioms Sched.C14_interleaving
