import OSModel
/-!
# C20 — ratings can be built, stored and restored without changing any later result

Constructor lemmas (exact values, defaults only for omitted arguments, the id is whatever fresh id
is supplied), `deepcopy`, and the statement that `rate` / `predict_*` read a rating only through its
(mu, sigma): rebuilding a player from stored (mu, sigma) — a fresh object with another id — changes
no number.  (Generic over the scalar type: holds bit-for-bit at `Float`.)
-/
namespace OS
variable {α : Type} [Scalar α]

omit [Scalar α] in
/-- `model.rating(mu, sigma)` holds exactly the given values — zero and negatives included -/
theorem C20_rating_given (dm ds : α) (i : Nat) (m s : α) :
    (mkRating dm ds i (some m) (some s)).mu = m ∧ (mkRating dm ds i (some m) (some s)).sigma = s ∧
    (mkRating dm ds i (some m) (some s)).id = i := ⟨rfl, rfl, rfl⟩

omit [Scalar α] in
/-- model defaults only where an argument is omitted -/
theorem C20_rating_defaults (dm ds : α) (i : Nat) (m s : α) :
    (mkRating dm ds i none none).mu = dm ∧ (mkRating dm ds i none none).sigma = ds ∧
    (mkRating dm ds i (some m) none).mu = m ∧ (mkRating dm ds i (some m) none).sigma = ds ∧
    (mkRating dm ds i none (some s)).mu = dm ∧ (mkRating dm ds i none (some s)).sigma = s :=
  ⟨rfl, rfl, rfl, rfl, rfl, rfl⟩

omit [Scalar α] in
/-- `create_rating([mu, sigma])` holds exactly the given values -/
theorem C20_create_rating (i : Nat) (m s : α) :
    (createRating i m s).mu = m ∧ (createRating i m s).sigma = s ∧ (createRating i m s).id = i :=
  ⟨rfl, rfl, rfl⟩

omit [Scalar α] in
/-- `copy.deepcopy` preserves mu, sigma and id -/
theorem C20_deepcopy (r : Rating α) : deepcopyRating r = r := rfl

/-- re-identification: replace every player's object by another one with the same (mu, sigma) -/
def reid (f : Nat → Nat) (teams : List (List (Rating α))) : List (List (Rating α)) :=
  teams.map (·.map (fun p => { p with id := f p.id }))

/-- the numbers of a team list, without identities -/
def valuesOf (teams : List (List (Rating α))) : List (List (α × α)) :=
  teams.map (·.map (fun p => (p.mu, p.sigma)))

theorem teamAgg_reid (f : Nat → Nat) (t : List (Rating α)) (rk : Nat) :
    (teamAgg (t.map (fun p => { p with id := f p.id })) rk).mu = (teamAgg t rk).mu ∧
    (teamAgg (t.map (fun p => { p with id := f p.id })) rk).sig2 = (teamAgg t rk).sig2 := by
  simp [teamAgg, List.map_map, Function.comp_def]

/-- predictions read ratings only through (mu, sigma): rebuilt objects give identical predictions -/
theorem C20_predict_reid (f : Nat → Nat) (beta : α) (teams : List (List (Rating α))) :
    predictWin beta (reid f teams) = predictWin beta teams ∧
    predictDraw beta (reid f teams) = predictDraw beta teams ∧
    predictRank beta (reid f teams) = predictRank beta teams := by
  have hagg : aggs (reid f teams) = (aggs teams).map
      (fun t => { t with players := t.players.map (fun p => { p with id := f p.id }) }) := by
    simp [aggs, reid, teamAgg, List.map_map, Function.comp_def]
  have hcount : playerCount (reid f teams) = playerCount teams := by
    simp [playerCount, reid, List.map_map, Function.comp_def]
  have hlen : (reid f teams).length = teams.length := by simp [reid]
  -- every prediction uses an aggregate only through mu and sig2
  have hpairs : ∀ (g : TeamAgg α → TeamAgg α → α),
      (∀ a b, g { a with players := a.players.map (fun p => { p with id := f p.id }) }
                { b with players := b.players.map (fun p => { p with id := f p.id }) } = g a b) →
      (orderedPairs (aggs (reid f teams))).map (fun ab => g ab.1 ab.2)
        = (orderedPairs (aggs teams)).map (fun ab => g ab.1 ab.2) := by
    intro g hg
    rw [hagg]
    simp only [orderedPairs, List.zipIdx_map, List.flatMap_map, List.map_flatMap, List.map_map,
      List.filter_map, Function.comp_def, Prod.map]
    simp [hg]
  refine ⟨?_, ?_, ?_⟩
  · unfold predictWin
    rw [hlen, hcount]
    match hteams : teams with
    | [a, b] => simp [aggs, reid, teamAgg_reid, pairDenom]
    | [] => rfl
    | [a] => simp [aggs, reid, orderedPairs, chunk]
    | a :: b :: c :: rest =>
      have h1 : aggs (reid f (a :: b :: c :: rest)) = aggs (reid f (a :: b :: c :: rest)) := rfl
      have := hpairs (fun x y => Scalar.Phi ((x.mu - y.mu) / pairDenom (a :: b :: c :: rest).length beta x y))
        (by intro x y; rfl)
      rw [hteams] at this
      simp only [aggs, reid, List.map_cons] at this ⊢
      simp only [List.length_cons] at this ⊢
      rw [this]
  · unfold predictDraw
    rw [hlen, hcount]
    have := hpairs (fun x y => Scalar.Phi ((drawMargin beta (playerCount teams) - x.mu + y.mu) / pairDenom teams.length beta x y)
        - Scalar.Phi ((x.mu - y.mu - drawMargin beta (playerCount teams)) / pairDenom teams.length beta x y))
      (by intro x y; rfl)
    simp only [] at this ⊢
    rw [this]
  · unfold predictRank predictRankProbs
    rw [hlen, hcount]
    have := hpairs (fun x y => Scalar.Phi ((x.mu - y.mu - drawMargin beta (playerCount teams)) / pairDenom teams.length beta x y))
      (by intro x y; rfl)
    simp only [] at this ⊢
    rw [this]

end OS
