import OSProofs.Props.C15
#print axioms OS.C15_tau
#print axioms OS.C15_limit_sigma
#print axioms OS.C15_omitted
#print axioms OS.C15_both
#print axioms OS.resolveTau_some
#print axioms OS.resolveLimit_some
