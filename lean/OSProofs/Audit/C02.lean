import OSProofs.Props.C02
import OSProofs.Props.PredictLoops
#print axioms OS.compute_ids
#print axioms OS.inflate_ids
#print axioms OS.clampTeams_ids
#print axioms OS.omegaDelta_length
#print axioms OS.C02_ids_rateCore
#print axioms OS.C02_ids_rateCore_none
#print axioms OS.C02_ids_rateCore_some
#print axioms OS.C02_ids_rate
#print axioms OS.C02_team_update
#print axioms OS.C02_team_update_rate
#print axioms OS.C02_clamp_slot
#print axioms OS.unwind_roundtrip
#print axioms OS.unwind_roundtrip_zip
#print axioms OS.unwind_roundtrip_slot
#print axioms OS.unwind_by_perm
#print axioms OS.unwind_first
#print axioms OS.C02_team_update_some
#print axioms OS.unwind_map
#print axioms OS.unwindCode_eq
