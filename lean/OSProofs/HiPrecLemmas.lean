import OSModel.HiPrec
import Mathlib.Analysis.Real.Sqrt
import Mathlib.Algebra.Order.Floor.Ring
import Mathlib.Tactic.Ring
import Mathlib.Tactic.Linarith
import Mathlib.Tactic.Positivity
import Mathlib.Tactic.FieldSimp
import Mathlib.Tactic.Push
import Mathlib.Tactic.NormNum

/-!
# Helper lemmas for the big-float evaluator `OSModel/HiPrec.lean`

Real-number semantics `BF.toReal`, facts about `bitLen`, the truncation lemma for `Int.tdiv`,
and the "relative truncation" predicate `RelTrunc` every rounding operation satisfies.
The headline statements are collected in `OSProofs/Props/Oracle.lean`.
-/

namespace OS.HP

noncomputable section

/-- real value of a big float: `m · 2^e` (integer power, `e` may be negative) -/
def BF.toReal (x : BF) : ℝ := (x.m : ℝ) * (2 : ℝ) ^ x.e

@[simp] theorem toReal_mk (m e : Int) : (BF.mk m e).toReal = (m : ℝ) * (2 : ℝ) ^ e := rfl

theorem two_zpow_pos (e : Int) : (0 : ℝ) < (2 : ℝ) ^ e := zpow_pos (by norm_num) e

theorem toReal_zero_of_m {x : BF} (h : x.m = 0) : x.toReal = 0 := by
  simp [BF.toReal, h]

/-! ### bitLen -/

theorem bitLen_zero : bitLen 0 = 0 := by simp [bitLen]

theorem bitLen_pos {n : Nat} (h : 0 < n) : 0 < bitLen n := by
  have : n ≠ 0 := Nat.pos_iff_ne_zero.mp h
  simp [bitLen, this]

theorem bitLen_lower {n : Nat} (h : 0 < n) : 2 ^ (bitLen n - 1) ≤ n := by
  have h0 : n ≠ 0 := Nat.pos_iff_ne_zero.mp h
  simpa [bitLen, h0] using Nat.log2_self_le h0

theorem bitLen_upper (n : Nat) : n < 2 ^ bitLen n := by
  by_cases h0 : n = 0
  · simp [bitLen, h0]
  · simpa [bitLen, h0] using (Nat.lt_log2_self (n := n))

theorem bitLen_le_of_lt {n k : Nat} (h : n < 2 ^ k) : bitLen n ≤ k := by
  by_cases h0 : n = 0
  · simp [bitLen, h0]
  · have := (Nat.log2_lt h0).2 h
    simp only [bitLen, h0, if_false]
    omega

theorem bitLen_le_iff {n k : Nat} : bitLen n ≤ k ↔ n < 2 ^ k := by
  refine ⟨fun h => ?_, bitLen_le_of_lt⟩
  exact lt_of_lt_of_le (bitLen_upper n) (Nat.pow_le_pow_right (by norm_num) h)

/-! ### exact operations -/

theorem neg_toReal (a : BF) : (neg a).toReal = -a.toReal := by
  simp [neg, BF.toReal]

theorem abs_toReal (a : BF) : (abs a).toReal = |a.toReal| := by
  simp only [abs, BF.toReal, Int.ofNat_eq_natCast, Int.natCast_natAbs, Int.cast_abs, abs_mul,
    abs_of_pos (two_zpow_pos a.e)]

theorem scale2_toReal (a : BF) (k : Int) : (scale2 a k).toReal = a.toReal * (2 : ℝ) ^ k := by
  simp only [scale2, BF.toReal, zpow_add₀ (two_ne_zero' ℝ), mul_assoc]

theorem ofInt_toReal (i : Int) : (ofInt i).toReal = (i : ℝ) := by
  simp [ofInt, BF.toReal]

theorem isNeg_iff (a : BF) : isNeg a = true ↔ a.toReal < 0 := by
  simp only [isNeg, decide_eq_true_eq, BF.toReal]
  rw [mul_neg_iff]
  have := two_zpow_pos a.e
  constructor
  · intro h; right; exact ⟨by exact_mod_cast h, this⟩
  · rintro (⟨_, h⟩ | ⟨h, _⟩)
    · exact absurd h (not_lt.2 this.le)
    · exact_mod_cast h

/-- aligning a value on a smaller exponent: `m · 2^hi = (m · 2^(hi-lo)) · 2^lo` -/
theorem align (m : Int) {hi lo : Int} (h : lo ≤ hi) :
    (((m * (2 : Int) ^ (hi - lo).toNat : Int) : ℝ)) * (2 : ℝ) ^ lo = (m : ℝ) * (2 : ℝ) ^ hi := by
  have hd : ((hi - lo).toNat : Int) = hi - lo := Int.toNat_of_nonneg (by omega)
  have : (2 : ℝ) ^ hi = (2 : ℝ) ^ ((hi - lo).toNat : Int) * (2 : ℝ) ^ lo := by
    rw [← zpow_add₀ (two_ne_zero' ℝ), hd]; congr 1; ring
  rw [this, zpow_natCast]; push_cast; ring

theorem lt_iff (a b : BF) : lt a b = true ↔ a.toReal < b.toReal := by
  unfold lt
  by_cases h : a.e ≥ b.e
  · simp only [h, if_true, Bool.false_eq_true, if_false, decide_eq_true_eq]
    have hal := align a.m (show b.e ≤ a.e from h)
    have hp := two_zpow_pos b.e
    simp only [BF.toReal]
    rw [← hal, mul_lt_mul_iff_left₀ hp]
    constructor
    · intro hh; have : a.m * (2 : Int) ^ (a.e - b.e).toNat < b.m := by omega
      exact_mod_cast this
    · intro hh; have : a.m * (2 : Int) ^ (a.e - b.e).toNat < b.m := by exact_mod_cast hh
      omega
  · simp only [h, if_false, if_true, decide_eq_true_eq]
    have hal := align b.m (show a.e ≤ b.e by omega)
    have hp := two_zpow_pos a.e
    simp only [BF.toReal]
    rw [← hal, mul_lt_mul_iff_left₀ hp]
    constructor
    · intro hh; have : a.m < b.m * (2 : Int) ^ (b.e - a.e).toNat := by omega
      exact_mod_cast this
    · intro hh; have : a.m < b.m * (2 : Int) ^ (b.e - a.e).toNat := by exact_mod_cast hh
      omega

theorem floor_spec (a : BF) :
    ((floor a : Int) : ℝ) ≤ a.toReal ∧ a.toReal < ((floor a : Int) : ℝ) + 1 := by
  unfold floor
  by_cases h : a.e ≥ 0
  · simp only [h, if_true]
    have he : ((a.e.toNat : Int)) = a.e := Int.toNat_of_nonneg h
    have : a.toReal = ((a.m * (2 : Int) ^ a.e.toNat : Int) : ℝ) := by
      simp only [BF.toReal]; push_cast; rw [← zpow_natCast, he]
    rw [this]; constructor
    · exact le_refl _
    · linarith
  · simp only [h, if_false]
    set k := (-a.e).toNat with hk
    have hkz : ((k : Int)) = -a.e := Int.toNat_of_nonneg (by omega)
    have hdpos : (0 : Int) < (2 : Int) ^ k := by positivity
    rw [Int.fdiv_eq_ediv_of_nonneg _ hdpos.le]
    have hR : a.toReal = (a.m : ℝ) / ((2 : Int) ^ k : Int) := by
      simp only [BF.toReal]
      have : a.e = -(k : Int) := by omega
      rw [this, zpow_neg, zpow_natCast]; push_cast; rw [div_eq_mul_inv]
    have hdR : (0 : ℝ) < (((2 : Int) ^ k : Int) : ℝ) := by exact_mod_cast hdpos
    have h1 := Int.ediv_mul_le a.m (ne_of_gt hdpos)
    have h2 := Int.lt_ediv_add_one_mul_self a.m hdpos
    rw [hR]
    constructor
    · rw [le_div_iff₀ hdR]; exact_mod_cast h1
    · rw [div_lt_iff₀ hdR]; exact_mod_cast h2

/-! ### truncation toward zero -/

/-- `y` is `x` truncated toward zero with relative loss at most `ε`:
`y = x·(1-θ)` for some `0 ≤ θ ≤ min ε 1`. -/
def RelTrunc (y x ε : ℝ) : Prop := ∃ θ : ℝ, 0 ≤ θ ∧ θ ≤ ε ∧ θ ≤ 1 ∧ y = x * (1 - θ)

theorem RelTrunc.refl (x : ℝ) {ε : ℝ} (h : 0 ≤ ε) : RelTrunc x x ε :=
  ⟨0, le_refl _, h, zero_le_one, by ring⟩

theorem RelTrunc.mono {y x ε ε' : ℝ} (h : RelTrunc y x ε) (he : ε ≤ ε') : RelTrunc y x ε' := by
  obtain ⟨θ, h0, h1, h2, h3⟩ := h
  exact ⟨θ, h0, h1.trans he, h2, h3⟩

theorem RelTrunc.trans {z y x ε₁ ε₂ : ℝ} (h₂ : RelTrunc z y ε₂) (h₁ : RelTrunc y x ε₁) :
    RelTrunc z x (ε₁ + ε₂) := by
  obtain ⟨θ₂, a0, a1, a2, a3⟩ := h₂
  obtain ⟨θ₁, b0, b1, b2, b3⟩ := h₁
  refine ⟨θ₁ + θ₂ - θ₁ * θ₂, ?_, ?_, ?_, ?_⟩
  · nlinarith
  · nlinarith [mul_nonneg b0 a0]
  · nlinarith
  · rw [a3, b3]; ring

theorem RelTrunc.err {y x ε : ℝ} (h : RelTrunc y x ε) : |y - x| ≤ |x| * ε := by
  obtain ⟨θ, h0, h1, _, h3⟩ := h
  have : y - x = -(x * θ) := by rw [h3]; ring
  rw [this, abs_neg, abs_mul, abs_of_nonneg h0]
  exact mul_le_mul_of_nonneg_left h1 (abs_nonneg x)

theorem RelTrunc.abs_le {y x ε : ℝ} (h : RelTrunc y x ε) : |y| ≤ |x| := by
  obtain ⟨θ, h0, _, h2, h3⟩ := h
  rw [h3, abs_mul, abs_of_nonneg (by linarith : 0 ≤ 1 - θ)]
  nlinarith [abs_nonneg x]

theorem RelTrunc.nonneg {y x ε : ℝ} (h : RelTrunc y x ε) (hx : 0 ≤ x) : 0 ≤ y := by
  obtain ⟨θ, _, _, h2, h3⟩ := h
  rw [h3]; exact mul_nonneg hx (by linarith)

theorem RelTrunc.nonpos {y x ε : ℝ} (h : RelTrunc y x ε) (hx : x ≤ 0) : y ≤ 0 := by
  obtain ⟨θ, _, _, h2, h3⟩ := h
  rw [h3]; exact mul_nonpos_of_nonpos_of_nonneg hx (by linarith)

theorem RelTrunc.mul_right {y x ε : ℝ} (h : RelTrunc y x ε) (c : ℝ) :
    RelTrunc (y * c) (x * c) ε := by
  obtain ⟨θ, h0, h1, h2, h3⟩ := h
  exact ⟨θ, h0, h1, h2, by rw [h3]; ring⟩

/-- `Int.tdiv` truncates toward zero: `q·d = m·(1-θ)` with `0 ≤ θ ≤ 1` and `θ·|m| < |d|`. -/
theorem tdiv_trunc (m d : Int) (hd : d ≠ 0) :
    ∃ θ : ℝ, 0 ≤ θ ∧ θ ≤ 1 ∧ θ * |(m : ℝ)| < |(d : ℝ)| ∧
      ((Int.tdiv m d : Int) : ℝ) * (d : ℝ) = (m : ℝ) * (1 - θ) := by
  have hdR : (0 : ℝ) < |(d : ℝ)| := abs_pos.2 (by exact_mod_cast hd)
  by_cases hm : m = 0
  · refine ⟨0, le_refl _, zero_le_one, by simpa using hdR, ?_⟩
    simp [hm]
  · have hmR : (0 : ℝ) < |(m : ℝ)| := abs_pos.2 (by exact_mod_cast hm)
    set ρ : Int := Int.tmod m d with hρ
    have hsum : ((Int.tdiv m d : Int) : ℝ) * (d : ℝ) + (ρ : ℝ) = (m : ℝ) := by
      exact_mod_cast Int.tdiv_mul_add_tmod m d
    have habs : ρ.natAbs = m.natAbs % d.natAbs := Int.natAbs_tmod m d
    have hdn : 0 < d.natAbs := Int.natAbs_pos.2 hd
    have hlt : ρ.natAbs < d.natAbs := habs ▸ Nat.mod_lt _ hdn
    have hle : ρ.natAbs ≤ m.natAbs := habs ▸ Nat.mod_le _ _
    have hltR : |(ρ : ℝ)| < |(d : ℝ)| := by
      rw [← Int.cast_abs, ← Int.cast_abs, Int.abs_eq_natAbs, Int.abs_eq_natAbs]
      exact_mod_cast hlt
    have hleR : |(ρ : ℝ)| ≤ |(m : ℝ)| := by
      rw [← Int.cast_abs, ← Int.cast_abs, Int.abs_eq_natAbs, Int.abs_eq_natAbs]
      exact_mod_cast hle
    -- ρ has the sign of m
    have hsign : (ρ : ℝ) = |(ρ : ℝ)| / |(m : ℝ)| * (m : ℝ) := by
      rcases le_total 0 m with h0 | h0
      · have : 0 ≤ ρ := Int.tmod_nonneg d h0
        have h0R : (0 : ℝ) ≤ (m : ℝ) := by exact_mod_cast h0
        have hρR : (0 : ℝ) ≤ (ρ : ℝ) := by exact_mod_cast this
        rw [abs_of_nonneg h0R, abs_of_nonneg hρR]
        have : (m : ℝ) ≠ 0 := by exact_mod_cast hm
        field_simp
      · have hneg : ρ = -Int.tmod (-m) d := by rw [hρ, Int.neg_tmod]; ring
        have : 0 ≤ Int.tmod (-m) d := Int.tmod_nonneg d (by omega)
        have h0R : (m : ℝ) ≤ 0 := by exact_mod_cast h0
        have hρR : (ρ : ℝ) ≤ 0 := by
          have : ρ ≤ 0 := by omega
          exact_mod_cast this
        rw [abs_of_nonpos h0R, abs_of_nonpos hρR]
        have : (m : ℝ) ≠ 0 := by exact_mod_cast hm
        field_simp
    refine ⟨|(ρ : ℝ)| / |(m : ℝ)|, by positivity, ?_, ?_, ?_⟩
    · rw [div_le_one hmR]; exact hleR
    · rw [div_mul_cancel₀ _ (ne_of_gt hmR)]; exact hltR
    · have : ((Int.tdiv m d : Int) : ℝ) * (d : ℝ) = (m : ℝ) - (ρ : ℝ) := by linarith
      rw [this]
      have : (m : ℝ) * (1 - |(ρ : ℝ)| / |(m : ℝ)|) = (m : ℝ) - |(ρ : ℝ)| / |(m : ℝ)| * (m : ℝ) := by
        ring
      rw [this, ← hsign]

/-! ### norm -/

/-- the mantissa `norm` produces is the `Int.tdiv` of the input mantissa by `2^sh` -/
theorem norm_mantissa (m : Int) (sh : Nat) :
    (if m < 0 then -(Int.ofNat (m.natAbs >>> sh)) else Int.ofNat (m.natAbs >>> sh))
      = Int.tdiv m ((2 : Int) ^ sh) := by
  rw [Nat.shiftRight_eq_div_pow]
  have h2 : ((2 : Int) ^ sh) = ((2 ^ sh : Nat) : Int) := by push_cast; rfl
  rcases Int.natAbs_eq m with h | h
  · have hn : ¬ m < 0 := by omega
    rw [if_neg hn, h2]
    conv_rhs => rw [h]
    rw [← Int.ofNat_tdiv]; rfl
  · by_cases hz : m = 0
    · subst hz; simp
    · have hn : m < 0 := by omega
      rw [if_pos hn, h2]
      conv_rhs => rw [h]
      rw [Int.neg_tdiv, ← Int.ofNat_tdiv]; rfl

theorem norm_spec {P : Nat} (hP : 0 < P) (x : BF) :
    RelTrunc (norm P x).toReal x.toReal ((2 : ℝ) ^ (1 - (P : Int))) := by
  have hε : (0 : ℝ) ≤ (2 : ℝ) ^ (1 - (P : Int)) := (two_zpow_pos _).le
  unfold norm
  by_cases h0 : x.m.natAbs = 0
  · have hm : x.m = 0 := Int.natAbs_eq_zero.mp h0
    simp only [h0, if_true]
    rw [toReal_zero_of_m hm]
    simpa using RelTrunc.refl 0 hε
  · simp only [h0, if_false]
    by_cases hb : bitLen x.m.natAbs ≤ P
    · simp only [hb, if_true]; exact RelTrunc.refl _ hε
    · simp only [hb, if_false]
      set b := bitLen x.m.natAbs with hbdef
      set sh := b - P with hsh
      rw [norm_mantissa]
      have hd : ((2 : Int) ^ sh) ≠ 0 := by positivity
      obtain ⟨θ, t0, t1, t2, t3⟩ := tdiv_trunc x.m ((2 : Int) ^ sh) hd
      have hlow : 2 ^ (b - 1) ≤ x.m.natAbs := bitLen_lower (Nat.pos_of_ne_zero h0)
      have hbs : b - 1 = sh + (P - 1) := by omega
      have hlowR : (2 : ℝ) ^ sh * (2 : ℝ) ^ (P - 1) ≤ |(x.m : ℝ)| := by
        rw [← pow_add, ← hbs, ← Int.cast_abs, Int.abs_eq_natAbs]
        exact_mod_cast hlow
      have hdR : |(((2 : Int) ^ sh : Int) : ℝ)| = (2 : ℝ) ^ sh := by
        push_cast; exact abs_of_pos (by positivity)
      rw [hdR] at t2
      have hshpos : (0 : ℝ) < (2 : ℝ) ^ sh := by positivity
      have hPpos : (0 : ℝ) < (2 : ℝ) ^ (P - 1) := by positivity
      have hθ : θ * (2 : ℝ) ^ (P - 1) ≤ 1 := by
        have : θ * ((2 : ℝ) ^ sh * (2 : ℝ) ^ (P - 1)) < (2 : ℝ) ^ sh :=
          lt_of_le_of_lt (mul_le_mul_of_nonneg_left hlowR t0) t2
        by_contra hcon
        push Not at hcon
        nlinarith
      have hεeq : (2 : ℝ) ^ (1 - (P : Int)) = ((2 : ℝ) ^ (P - 1))⁻¹ := by
        have : (1 - (P : Int)) = -((P - 1 : Nat) : Int) := by omega
        rw [this, zpow_neg, zpow_natCast]
      refine ⟨θ, t0, ?_, t1, ?_⟩
      · rw [hεeq, ← one_div, le_div_iff₀ hPpos]; exact hθ
      · simp only [BF.toReal, Int.ofNat_eq_natCast]
        rw [zpow_add₀ (two_ne_zero' ℝ), zpow_natCast]
        have t3' : ((Int.tdiv x.m ((2 : Int) ^ sh) : Int) : ℝ) * (2 : ℝ) ^ sh
            = (x.m : ℝ) * (1 - θ) := by
          rw [← t3]; push_cast; ring
        calc ((Int.tdiv x.m ((2 : Int) ^ sh) : Int) : ℝ) * ((2 : ℝ) ^ x.e * (2 : ℝ) ^ sh)
            = (((Int.tdiv x.m ((2 : Int) ^ sh) : Int) : ℝ) * (2 : ℝ) ^ sh) * (2 : ℝ) ^ x.e := by
              ring
          _ = _ := by rw [t3']; ring

theorem norm_exact {P : Nat} (x : BF) (h : bitLen x.m.natAbs ≤ P) :
    (norm P x).toReal = x.toReal := by
  unfold norm
  by_cases h0 : x.m.natAbs = 0
  · have hm : x.m = 0 := Int.natAbs_eq_zero.mp h0
    simp [h0, toReal_zero_of_m hm]
  · simp [h0, h]

theorem norm_bitLen {P : Nat} (x : BF) : bitLen (norm P x).m.natAbs ≤ P := by
  unfold norm
  by_cases h0 : x.m.natAbs = 0
  · simp [h0, bitLen]
  · simp only [h0, if_false]
    by_cases hb : bitLen x.m.natAbs ≤ P
    · simp only [hb, if_true]
    · simp only [hb, if_false]
      rw [norm_mantissa, Int.natAbs_tdiv]
      apply bitLen_le_of_lt
      have hup := bitLen_upper x.m.natAbs
      have hnat : ((2 : Int) ^ (bitLen x.m.natAbs - P)).natAbs = 2 ^ (bitLen x.m.natAbs - P) := by
        rw [Int.natAbs_pow]; rfl
      rw [hnat]
      show x.m.natAbs / 2 ^ (bitLen x.m.natAbs - P) < 2 ^ P
      rw [Nat.div_lt_iff_lt_mul (by positivity), ← pow_add]
      have : P + (bitLen x.m.natAbs - P) = bitLen x.m.natAbs := by omega
      rw [this]; exact hup

/-! ### mul -/

theorem mul_spec {P : Nat} (hP : 0 < P) (a b : BF) :
    RelTrunc (mul P a b).toReal (a.toReal * b.toReal) ((2 : ℝ) ^ (1 - (P : Int))) := by
  have h := norm_spec hP ⟨a.m * b.m, a.e + b.e⟩
  have : (BF.mk (a.m * b.m) (a.e + b.e)).toReal = a.toReal * b.toReal := by
    simp only [BF.toReal, zpow_add₀ (two_ne_zero' ℝ)]; push_cast; ring
  rw [this] at h
  exact h

/-! ### constants -/

theorem eps_combine_div (P : Nat) :
    (2 : ℝ) ^ (-((P : Int) + 8)) + (2 : ℝ) ^ (1 - (P : Int)) ≤ (2 : ℝ) ^ (2 - (P : Int)) := by
  have h1 : (2 : ℝ) ^ (-((P : Int) + 8)) ≤ (2 : ℝ) ^ (1 - (P : Int)) :=
    zpow_le_zpow_right₀ (by norm_num) (by omega)
  have h2 : (2 : ℝ) ^ (2 - (P : Int)) = 2 * (2 : ℝ) ^ (1 - (P : Int)) := by
    have : (2 - (P : Int)) = 1 + (1 - (P : Int)) := by ring
    rw [this, zpow_add₀ (two_ne_zero' ℝ), zpow_one]
  rw [h2]; linarith

theorem eps_combine_sqrt (P : Nat) :
    (2 : ℝ) ^ (-((P : Int) + 1)) + (2 : ℝ) ^ (1 - (P : Int)) ≤ (2 : ℝ) ^ (2 - (P : Int)) := by
  have h1 : (2 : ℝ) ^ (-((P : Int) + 1)) ≤ (2 : ℝ) ^ (1 - (P : Int)) :=
    zpow_le_zpow_right₀ (by norm_num) (by omega)
  have h2 : (2 : ℝ) ^ (2 - (P : Int)) = 2 * (2 : ℝ) ^ (1 - (P : Int)) := by
    have : (2 - (P : Int)) = 1 + (1 - (P : Int)) := by ring
    rw [this, zpow_add₀ (two_ne_zero' ℝ), zpow_one]
  rw [h2]; linarith

/-! ### div -/

theorem div_zero (P : Nat) (a b : BF) (h : b.m = 0) : div P a b = ⟨0, 0⟩ := by
  simp [div, h]

theorem toReal_ne_zero {b : BF} (h : b.m ≠ 0) : b.toReal ≠ 0 := by
  simp only [BF.toReal]
  exact mul_ne_zero (by exact_mod_cast h) (ne_of_gt (two_zpow_pos _))

/-- the quotient before normalisation: truncation of the exact quotient, loss ≤ 2^-(P+8) -/
theorem div_raw_spec (P : Nat) (a b : BF) (hb : b.m ≠ 0) :
    RelTrunc
      (BF.mk (Int.tdiv (a.m * (2 : Int) ^ (P + 8 + bitLen b.m.natAbs)) b.m)
        (a.e - b.e - Int.ofNat (P + 8 + bitLen b.m.natAbs))).toReal
      (a.toReal / b.toReal) ((2 : ℝ) ^ (-((P : Int) + 8))) := by
  set L := bitLen b.m.natAbs with hL
  set s := P + 8 + L with hs
  have hbR : (b.m : ℝ) ≠ 0 := by exact_mod_cast hb
  have h2s : (0 : ℝ) < (2 : ℝ) ^ s := by positivity
  obtain ⟨θ, t0, t1, t2, t3⟩ := tdiv_trunc (a.m * (2 : Int) ^ s) b.m hb
  -- value identity
  have hval : (BF.mk (Int.tdiv (a.m * (2 : Int) ^ s) b.m) (a.e - b.e - Int.ofNat s)).toReal
      = a.toReal / b.toReal * (1 - θ) := by
    have hq : ((Int.tdiv (a.m * (2 : Int) ^ s) b.m : Int) : ℝ)
        = (a.m : ℝ) * (2 : ℝ) ^ s * (1 - θ) / (b.m : ℝ) := by
      rw [eq_div_iff hbR, t3]; push_cast; ring
    simp only [BF.toReal, Int.ofNat_eq_natCast]
    have hexp : (2 : ℝ) ^ (a.e - b.e - (s : Int)) = (2 : ℝ) ^ a.e / (2 : ℝ) ^ b.e / (2 : ℝ) ^ s := by
      rw [zpow_sub₀ (two_ne_zero' ℝ), zpow_sub₀ (two_ne_zero' ℝ), zpow_natCast]
    rw [hq, hexp]
    have hbe : (2 : ℝ) ^ b.e ≠ 0 := ne_of_gt (two_zpow_pos _)
    field_simp
  by_cases ha : a.m = 0
  · -- everything is zero
    have hz : a.toReal = 0 := toReal_zero_of_m ha
    have : (BF.mk (Int.tdiv (a.m * (2 : Int) ^ s) b.m) (a.e - b.e - Int.ofNat s)).toReal = 0 := by
      simp [BF.toReal, ha]
    rw [this, hz, zero_div]
    exact RelTrunc.refl 0 (two_zpow_pos _).le
  · refine ⟨θ, t0, ?_, t1, hval⟩
    -- θ·|a.m|·2^s < |b.m| < 2^L and |a.m| ≥ 1
    have ha1 : (1 : ℝ) ≤ |(a.m : ℝ)| := by
      rw [← Int.cast_abs]
      have : (1 : Int) ≤ |a.m| := Int.one_le_abs ha
      exact_mod_cast this
    have hbL : |(b.m : ℝ)| < (2 : ℝ) ^ L := by
      rw [← Int.cast_abs, Int.abs_eq_natAbs]
      have := bitLen_upper b.m.natAbs
      exact_mod_cast this
    have habs : |((a.m * (2 : Int) ^ s : Int) : ℝ)| = |(a.m : ℝ)| * (2 : ℝ) ^ s := by
      push_cast; rw [abs_mul, abs_of_pos h2s]
    rw [habs] at t2
    have hlt : θ * (2 : ℝ) ^ s < (2 : ℝ) ^ L := by
      have : θ * (2 : ℝ) ^ s ≤ θ * (|(a.m : ℝ)| * (2 : ℝ) ^ s) := by
        apply mul_le_mul_of_nonneg_left _ t0
        nlinarith
      linarith
    have hs' : (2 : ℝ) ^ s = (2 : ℝ) ^ (P + 8) * (2 : ℝ) ^ L := by rw [hs, pow_add]
    have hLpos : (0 : ℝ) < (2 : ℝ) ^ L := by positivity
    have hPpos : (0 : ℝ) < (2 : ℝ) ^ (P + 8) := by positivity
    have hθ : θ * (2 : ℝ) ^ (P + 8) ≤ 1 := by
      rw [hs'] at hlt
      by_contra hcon
      push Not at hcon
      nlinarith
    have hεeq : (2 : ℝ) ^ (-((P : Int) + 8)) = ((2 : ℝ) ^ (P + 8))⁻¹ := by
      have : ((P : Int) + 8) = ((P + 8 : Nat) : Int) := by push_cast; ring
      rw [this, zpow_neg, zpow_natCast]
    rw [hεeq, ← one_div, le_div_iff₀ hPpos]; exact hθ

theorem div_spec {P : Nat} (hP : 0 < P) (a b : BF) (hb : b.m ≠ 0) :
    RelTrunc (div P a b).toReal (a.toReal / b.toReal) ((2 : ℝ) ^ (2 - (P : Int))) := by
  have h1 := div_raw_spec P a b hb
  have h2 := norm_spec hP
    (BF.mk (Int.tdiv (a.m * (2 : Int) ^ (P + 8 + bitLen b.m.natAbs)) b.m)
        (a.e - b.e - Int.ofNat (P + 8 + bitLen b.m.natAbs)))
  have : div P a b = norm P (BF.mk (Int.tdiv (a.m * (2 : Int) ^ (P + 8 + bitLen b.m.natAbs)) b.m)
        (a.e - b.e - Int.ofNat (P + 8 + bitLen b.m.natAbs))) := by
    simp [div, hb]
  rw [this]
  exact (h2.trans h1).mono (eps_combine_div P)

/-! ### sqrt -/

theorem sqrt_nonpos (P : Nat) (a : BF) (h : a.m ≤ 0) : sqrt P a = ⟨0, 0⟩ := by
  simp [sqrt, h]

/-- the left shift `sqrt` applies to the mantissa -/
def sqrtShift (P : Nat) (a : BF) : Nat :=
  let s0 := if bitLen a.m.natAbs ≥ 2 * P + 4 then 0 else 2 * P + 4 - bitLen a.m.natAbs
  if (a.e - Int.ofNat s0) % 2 = 0 then s0 else s0 + 1

theorem sqrt_eq (P : Nat) (a : BF) (h : 0 < a.m) :
    sqrt P a = norm P ⟨Int.ofNat (Nat.sqrt (a.m.natAbs <<< sqrtShift P a)),
      (a.e - Int.ofNat (sqrtShift P a)) / 2⟩ := by
  have : ¬ a.m ≤ 0 := not_le.2 h
  unfold sqrt sqrtShift
  rw [if_neg this]

theorem sqrtShift_even (P : Nat) (a : BF) : (a.e - (sqrtShift P a : Int)) % 2 = 0 := by
  unfold sqrtShift
  simp only [Int.ofNat_eq_natCast]
  split_ifs with h1 h2 h2
  · exact h2
  · push_cast; push_cast at h2; omega
  · exact h2
  · push_cast; omega

theorem sqrtShift_ge (P : Nat) (a : BF) : 2 * P + 4 ≤ bitLen a.m.natAbs + sqrtShift P a := by
  unfold sqrtShift
  simp only [Int.ofNat_eq_natCast]
  split_ifs with h1 h2 h2 <;> omega

/-- the root before normalisation: truncation of the exact root, loss ≤ 2^-(P+1) -/
theorem sqrt_raw_spec (P : Nat) (a : BF) (h : 0 < a.m) (s : Nat)
    (heven : (a.e - (s : Int)) % 2 = 0) (hge : 2 * P + 4 ≤ bitLen a.m.natAbs + s) :
    RelTrunc (BF.mk (Int.ofNat (Nat.sqrt (a.m.natAbs <<< s))) ((a.e - Int.ofNat s) / 2)).toReal
      (Real.sqrt a.toReal) ((2 : ℝ) ^ (-((P : Int) + 1))) := by
  set n := a.m.natAbs with hn
  set N := n <<< s with hN
  have hNeq : N = n * 2 ^ s := Nat.shiftLeft_eq _ _
  set k : Int := (a.e - Int.ofNat s) / 2 with hk
  have hae : a.e = 2 * k + (s : Int) := by
    simp only [Int.ofNat_eq_natCast] at hk; omega
  have hnpos : 0 < n := Int.natAbs_pos.2 (ne_of_gt h)
  have ham : (a.m : ℝ) = (n : ℝ) := by
    have : a.m = (n : Int) := by rw [hn]; omega
    rw [this]; simp
  -- size of N
  have hNlow : 2 ^ (2 * P + 2) ≤ N := by
    have h1 : 2 ^ (bitLen n - 1) ≤ n := bitLen_lower hnpos
    have hb : 0 < bitLen n := bitLen_pos hnpos
    calc 2 ^ (2 * P + 2) ≤ 2 ^ (bitLen n - 1 + s) := Nat.pow_le_pow_right (by norm_num) (by omega)
      _ = 2 ^ (bitLen n - 1) * 2 ^ s := pow_add _ _ _
      _ ≤ n * 2 ^ s := Nat.mul_le_mul_right _ h1
      _ = N := hNeq.symm
  have hNlowR : ((2 : ℝ) ^ (P + 1)) ^ 2 ≤ (N : ℝ) := by
    rw [← pow_mul]
    have : (P + 1) * 2 = 2 * P + 2 := by ring
    rw [this]; exact_mod_cast hNlow
  have h2P : (0 : ℝ) < (2 : ℝ) ^ (P + 1) := by positivity
  have hsqN : (2 : ℝ) ^ (P + 1) ≤ Real.sqrt N := Real.le_sqrt_of_sq_le hNlowR
  have hsqpos : 0 < Real.sqrt N := lt_of_lt_of_le h2P hsqN
  -- a = N · (2^k)^2
  have haR : a.toReal = (N : ℝ) * ((2 : ℝ) ^ k) ^ 2 := by
    simp only [BF.toReal]
    rw [ham, hae, hNeq, zpow_add₀ (two_ne_zero' ℝ), zpow_natCast]
    have : (2 : ℝ) ^ (2 * k) = ((2 : ℝ) ^ k) ^ 2 := by
      rw [← zpow_natCast, ← zpow_mul]; congr 1; push_cast; ring
    rw [this]; push_cast; ring
  have hsqa : Real.sqrt a.toReal = Real.sqrt N * (2 : ℝ) ^ k := by
    rw [haR, Real.sqrt_mul (Nat.cast_nonneg N), Real.sqrt_sq (two_zpow_pos k).le]
  -- the integer root
  set r := Nat.sqrt N with hr
  have hr1 : (r : ℝ) ≤ Real.sqrt N := Real.nat_sqrt_le_real_sqrt
  have hr2 : Real.sqrt N < (r : ℝ) + 1 := Real.real_sqrt_lt_nat_sqrt_succ
  have hr0 : (0 : ℝ) ≤ (r : ℝ) := Nat.cast_nonneg r
  refine ⟨(Real.sqrt N - r) / Real.sqrt N, ?_, ?_, ?_, ?_⟩
  · exact div_nonneg (by linarith) hsqpos.le
  · have hεeq : (2 : ℝ) ^ (-((P : Int) + 1)) = 1 / (2 : ℝ) ^ (P + 1) := by
      have : ((P : Int) + 1) = ((P + 1 : Nat) : Int) := by push_cast; ring
      rw [this, zpow_neg, zpow_natCast, one_div]
    rw [hεeq, div_le_div_iff₀ hsqpos h2P]
    nlinarith
  · rw [div_le_one hsqpos]; linarith
  · rw [hsqa]
    simp only [toReal_mk, Int.ofNat_eq_natCast, Int.cast_natCast]
    field_simp
    ring

theorem sqrt_spec {P : Nat} (hP : 0 < P) (a : BF) (h : 0 < a.m) :
    RelTrunc (sqrt P a).toReal (Real.sqrt a.toReal) ((2 : ℝ) ^ (2 - (P : Int))) := by
  rw [sqrt_eq P a h]
  have h1 := sqrt_raw_spec P a h (sqrtShift P a) (sqrtShift_even P a) (sqrtShift_ge P a)
  have h2 := norm_spec hP (BF.mk (Int.ofNat (Nat.sqrt (a.m.natAbs <<< sqrtShift P a)))
      ((a.e - Int.ofNat (sqrtShift P a)) / 2))
  exact (h2.trans h1).mono (eps_combine_sqrt P)

/-! ### add -/

/-- the body of `add` once the operands are ordered by exponent -/
def addCore (P : Nat) (hi lo : BF) : BF :=
  if (hi.e - lo.e).toNat > 2 * P + 64 ∧ bitLen lo.m.natAbs ≤ P + 8 then hi
  else norm P ⟨hi.m * (2 : Int) ^ (hi.e - lo.e).toNat + lo.m, lo.e⟩

theorem add_eq (P : Nat) (a b : BF) :
    add P a b = if a.m = 0 then b else if b.m = 0 then a else
      if a.e ≥ b.e then addCore P a b else addCore P b a := by
  unfold add addCore
  by_cases h1 : a.m = 0
  · simp [h1]
  · by_cases h2 : b.m = 0
    · simp [h1, h2]
    · by_cases h3 : a.e ≥ b.e
      · simp only [h1, h2, h3, if_false, if_true]
      · simp only [h1, h2, h3, if_false]

theorem addCore_err {P : Nat} (hP : 0 < P) (hi lo : BF) (he : lo.e ≤ hi.e) (hm : hi.m ≠ 0) :
    |(addCore P hi lo).toReal - (hi.toReal + lo.toReal)|
      ≤ |hi.toReal + lo.toReal| * (2 : ℝ) ^ (1 - (P : Int)) := by
  unfold addCore
  set d := (hi.e - lo.e).toNat with hd
  by_cases hc : d > 2 * P + 64 ∧ bitLen lo.m.natAbs ≤ P + 8
  · rw [if_pos hc]
    obtain ⟨hc1, hc2⟩ := hc
    -- the neglected term is `lo`
    have hlo : |lo.toReal| < (2 : ℝ) ^ (P + 8) * (2 : ℝ) ^ lo.e := by
      simp only [BF.toReal]
      rw [abs_mul, abs_of_pos (two_zpow_pos lo.e)]
      apply mul_lt_mul_of_pos_right _ (two_zpow_pos lo.e)
      rw [← Int.cast_abs, Int.abs_eq_natAbs]
      have := bitLen_le_iff.1 hc2
      exact_mod_cast this
    have hhi : (2 : ℝ) ^ d * (2 : ℝ) ^ lo.e ≤ |hi.toReal| := by
      have hdz : ((d : Int)) = hi.e - lo.e := Int.toNat_of_nonneg (by omega)
      have : (2 : ℝ) ^ d * (2 : ℝ) ^ lo.e = (2 : ℝ) ^ hi.e := by
        rw [← zpow_natCast, ← zpow_add₀ (two_ne_zero' ℝ), hdz]; congr 1; ring
      rw [this]
      simp only [BF.toReal]
      rw [abs_mul, abs_of_pos (two_zpow_pos hi.e)]
      have h1 : (1 : ℝ) ≤ |(hi.m : ℝ)| := by
        rw [← Int.cast_abs]
        have : (1 : Int) ≤ |hi.m| := Int.one_le_abs hm
        exact_mod_cast this
      nlinarith [two_zpow_pos hi.e]
    have hsum : |hi.toReal| - |lo.toReal| ≤ |hi.toReal + lo.toReal| := by
      have := abs_sub_abs_le_abs_sub hi.toReal (-lo.toReal)
      simpa [abs_neg, sub_neg_eq_add] using this
    have herr : |hi.toReal - (hi.toReal + lo.toReal)| = |lo.toReal| := by
      rw [show hi.toReal - (hi.toReal + lo.toReal) = -lo.toReal by ring, abs_neg]
    rw [herr]
    -- 2^d ≥ 2^(2P+65) = 2^(P+8) · 2^(P-1) · 2^58
    have hdpow : (2 : ℝ) ^ (P + 8) * (2 : ℝ) ^ (P - 1) * 2 ≤ (2 : ℝ) ^ d := by
      rw [← pow_add, ← pow_succ]
      exact pow_le_pow_right₀ (by norm_num) (by omega)
    have hεeq : (2 : ℝ) ^ (1 - (P : Int)) = ((2 : ℝ) ^ (P - 1))⁻¹ := by
      have : (1 - (P : Int)) = -((P - 1 : Nat) : Int) := by omega
      rw [this, zpow_neg, zpow_natCast]
    have hPpos : (0 : ℝ) < (2 : ℝ) ^ (P - 1) := by positivity
    have hP1 : (1 : ℝ) ≤ (2 : ℝ) ^ (P - 1) := one_le_pow₀ (by norm_num)
    have hL := two_zpow_pos lo.e
    have hP8 : (0 : ℝ) < (2 : ℝ) ^ (P + 8) := by positivity
    rw [hεeq, ← div_eq_mul_inv, le_div_iff₀ hPpos]
    -- |lo|·2^(P-1) ≤ 2^(P+8)·2^(P-1)·2^lo.e ≤ (2^d - 2^(P+8))·2^lo.e ≤ |hi| - |lo|
    set A := (2 : ℝ) ^ (P + 8) with hA
    set B := (2 : ℝ) ^ (P - 1) with hB
    set L := (2 : ℝ) ^ lo.e with hLdef
    set D := (2 : ℝ) ^ d with hD
    have s1 : |lo.toReal| * B ≤ A * L * B :=
      mul_le_mul_of_nonneg_right hlo.le hPpos.le
    have s2 : A * L * B + A * L ≤ D * L := by
      have : A * B + A ≤ D := by nlinarith
      nlinarith
    linarith
  · rw [if_neg hc]
    have hn := norm_spec hP ⟨hi.m * (2 : Int) ^ d + lo.m, lo.e⟩
    have hval : (BF.mk (hi.m * (2 : Int) ^ d + lo.m) lo.e).toReal = hi.toReal + lo.toReal := by
      have hal := align hi.m he
      simp only [BF.toReal]
      rw [← hal]; push_cast; ring
    rw [hval] at hn
    exact hn.err

theorem add_err {P : Nat} (hP : 0 < P) (a b : BF) :
    |(add P a b).toReal - (a.toReal + b.toReal)|
      ≤ |a.toReal + b.toReal| * (2 : ℝ) ^ (1 - (P : Int)) := by
  rw [add_eq]
  have hε := (two_zpow_pos (1 - (P : Int))).le
  by_cases h1 : a.m = 0
  · rw [if_pos h1, toReal_zero_of_m h1]
    simp only [zero_add, sub_self, abs_zero]
    exact mul_nonneg (abs_nonneg _) hε
  · rw [if_neg h1]
    by_cases h2 : b.m = 0
    · rw [if_pos h2, toReal_zero_of_m h2]
      simp only [add_zero, sub_self, abs_zero]
      exact mul_nonneg (abs_nonneg _) hε
    · rw [if_neg h2]
      by_cases h3 : a.e ≥ b.e
      · rw [if_pos h3]; exact addCore_err hP a b h3 h1
      · rw [if_neg h3, add_comm a.toReal b.toReal]
        exact addCore_err hP b a (by omega) h2

theorem sub_err {P : Nat} (hP : 0 < P) (a b : BF) :
    |(sub P a b).toReal - (a.toReal - b.toReal)|
      ≤ |a.toReal - b.toReal| * (2 : ℝ) ^ (1 - (P : Int)) := by
  have := add_err hP a (neg b)
  rw [neg_toReal, ← sub_eq_add_neg] at this
  exact this

end

end OS.HP
